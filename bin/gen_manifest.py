#!/usr/bin/env python3
"""Regenerate MANIFEST.json from the table below (single source of truth for the interface)."""
import json, os
V = os.path.dirname(os.path.dirname(os.path.abspath(__file__)))
props = [json.loads(l) for l in open(os.path.join(V, "properties.jsonl"))]
ids = [p["id"] for p in props]

CLAIMED = {
 "C10": dict(level="model_checking", technique="TLA+ GGM.tla model-checked by TLC (all subsets of 8-16-leaf domains, all histories of a 6-leaf domain); TLC's state/transition table replayed into the real GGM key; recorded 256-step histories trace-validated against the spec (Trace_GGM); the model-level claim is lifted to all 2^256 subsets by a refinement chain GGM => GGM_Ind (inductive invariant, Apalache) => GGM_Abs (Spec => []Inv proved with TLAPS), the links and the finite tree lemma checked by TLC",
             text="Exhaustive exploration of the puncture lattice in the TLA+ model with the per-state observation table replayed on the real key after every step, plus all ordered pairs over the full 8-bit domain and long adversarial histories validated as spec behaviours; right level because the property quantifies over histories of a small state machine.",
             note="PRG outputs are treated as ideal (equal iff same tree path); fresh-key values are ground truth; domains beyond 16 leaves are sampled (pairs, 256-step histories), not exhausted.",
             ref="5/C10"),
 "C11": dict(level="model_checking", technique="TLC invariants ForwardSecure/ExactCover on GGM.tla; every lattice state reached on the real key and its retained nodes (verif-hooks) and exported bincode state judged against the fresh key's 510 node seeds; Trace_GGM validates logged retained-node sets; forward security and exact cover for every punctured set follow from the TLAPS-proved invariant of GGM_Abs through the TLC-checked refinements (see C10)",
             text="The invariant is model-checked on every reachable key state of the bounded lattice, and the same predicate is evaluated on the real retained key material and on exported/imported key state at every step.",
             note="Relies on the read-only hook reporting the retained (prefix, seed) list; seeds are compared by value with the fresh key's seeds (ideal PRG: no accidental collisions).",
             ref="5/C11"),
 "C14": dict(level="model_checking", technique="TLA+ PPOPRF.tla (composed with GGM.tla) model-checked by TLC over all histories of puncture/clone/export+import/new-server up to a depth bound; per-state successor and answer tables replayed by BFS on real ppoprf::Server instances; random 200-step histories trace-validated (Trace_PPOPRF)",
             text="Every interleaving of the state-changing calls up to the bound is enumerated in the model and each transition is executed on real server instances with a full observation of every live instance after every step; long random histories are validated as behaviours of the same specification.",
             note="History depth 4 (quick) / 5 (thorough) with <=3 instances and a 4/6-tag universe are exhaustive; beyond that sampled. Group/PRF values ideal: answers compared by value with the first answer seen for (key, tag, point).",
             ref="5/C14"),
 "C01": dict(level="model_checking", technique="TLA+ Adss.tla/Star.tla symbolic model, MC_Star scenario machine model-checked by TLC (all inbox sequences with repetition); predicted behaviours replayed through the real generate/encode/decode/recover/decrypt path under several byte valuations; random large-threshold scenarios trace-validated (Trace_Star)",
             text="All selections (subsets, permutations, duplications, surplus) over small client populations are enumerated by TLC with the invariant ThresholdRecovery and executed on the real crates; thresholds up to 64/200 and block-sized inputs are covered by recorded scenarios that must be behaviours of the same specification.",
             note="Ideal primitives in the model; data dimension sampled by valuations (1 B .. 700 B symbols, block boundaries), history dimension exhaustive up to inbox length 4/5.",
             ref="5/C01"),
 "C05": dict(level="fault_enumeration", technique="TLC enumerates every inbox sequence with one altered share (10 field-level fault kinds, every position) on MC_Star with invariant AuthenticatedRecovery; verdicts replayed on real encoded shares; byte-level sweep of every offset x 5 data faults x share position",
             text="The fault space (field x position x collection shape) is enumerated by the model checker, each fault is realised on the real encoding and the verdict compared; every byte of the share layout is additionally altered at three share positions.",
             note="Ideal MAC/cipher in the model; two degenerate alterations are accepted by design and modelled (x of a threshold-1 share, y of a sharing with empty message and coins).",
             ref="5/C05"),
 "C16": dict(level="model_checking", technique="MC_Star over direct ADSS sharings (thresholds 0..3, empty strings, custom transcript) model-checked by TLC and replayed through Commune::new/share/recover with byte-wise comparison of independent invocations and re-sharing; size sweep to 100 kB / t=128",
             text="Determinism, recovery, re-sharing, zero threshold and transcript separation are invariants of the symbolic ADSS model checked over all small collections, and each behaviour is executed on the real crate.",
             note="Ideal primitives; lengths and thresholds beyond the model are sampled on block-boundary lattices.",
             ref="5/C16"),
 "C17": dict(level="model_checking", technique="honest MC_Star behaviours (TLC-enumerated) executed through star_wasm::create_share/group_shares called natively, with UTF-8 valuations; create_share output compared with the core library",
             text="The grouping call is judged against the model's recovery verdict for every enumerated collection (counts around the threshold, mixtures, wrong epoch) and the creation call against the core derivation.",
             note="Native call of the rlib, not a WASM runtime; epochs restricted to UTF-8 by the API.",
             ref="5/C17"),
 "C02": dict(level="model_checking", technique="TLC on MC_Star: NoSubThresholdRecovery over all inbox sequences with forged thresholds/duplicates/foreign shares, knowledge-closure secrecy over all observation subsets; behaviours replayed on real shares; byte scan of encoded reports; TLC-verified polynomial certificate over Fp129 (Trace_Shamir); exhaustive perfect secrecy over GF(5), GF(7)",
             text="Recovery refusal below threshold is an invariant of the symbolic model enumerated over all small collections and executed on the real crates; the structural secrecy claims are decided by a derivation closure in the model and by byte scans plus a TLC-checked exact-degree certificate on the real shares.",
             note="Confidentiality is structural (ideal primitives): which values are visible or derivable, not a cryptographic reduction. Certificate thresholds up to 16 (quick) / 64 (thorough).",
             ref="5/C02"),
 "C06": dict(level="exploration", technique="Shamir.tla model-checked exhaustively over GF(5), GF(7), GF(13) against Lagrange interpolation; the same operators instantiated over Fp129.tla re-evaluate every logged deal/share/recover call of star_sharks (Trace_Shamir, TLC as independent big-integer implementation)",
             text="Differential testing of the real dealer/evaluator/recover against an independent TLA+ model evaluated by TLC on boundary-valued secrets, structured random sources and all selection shapes, with the model itself validated exhaustively on small fields.",
             note="TLC oracle up to threshold 24 (quick) / 96 (thorough); t = 200, 600 round-trip and refusal only. Operand values are sampled.",
             ref="5/C06"),
 "C07": dict(level="exploration", technique="Fp129.tla (base-256 limb arithmetic mod 2^128+12451, self-checked against native integers and ring axioms) evaluated by TLC on every logged Fp operation, encoding and published constant (Trace_Field)",
             text="TLC acts as the independent big-integer implementation: every recorded add/sub/neg/double/mul/square/invert/pow/sqrt/from_repr/to_repr call on lattice-crossed and uniform operands is recomputed, and the constants are checked against their defining equations.",
             note="2^258 operand pairs are sampled (boundary lattice squared + seeded uniform); (p-1)/2 prime is trusted for the generator criterion.",
             ref="5/C07"),
 "C03": dict(level="model_checking", technique="TLC on MC_Secrecy (Star.tla knowledge closure with an explicit XOR-of-ciphertexts rule) over every observation set; constant-nonce negative model refuted; on the real code: clear-text scan, every 16/32-byte window of the report tried as key, XOR-difference test on every 16-byte window of pairs/triples of sub-threshold reports",
             text="Keystream reuse is a design-level property of the dataflow (which key/nonce feeds the cipher), decided by model checking the eavesdropper's closure; the binding checks the same three statements on real encoded reports.",
             note="Ideal stream cipher in the model; computational secrecy is not claimed. XOR test false-alarm probability 2^-128 per window.",
             ref="5/C03"),
 "C04": dict(level="model_checking", technique="TLC enumerates all 147 (m,e,t) triples / 10 731 pairs over a 2-symbol alphabet (incl. 132 boundary-shifted pairs) on MC_Derive with the framed Strobe transcript (unframed negative model refuted); equality-pattern conformance of real randomness/tag/key bytes under valuations x one-bit-apart threshold maps",
             text="The family of boundary-shifted and prefix-related triples is enumerated, not sampled; the real derivation must reproduce exactly the model's equality classes, with independent clients and differing associated data.",
             note="Ideal hash; strings longer than two symbols and other thresholds are covered only through the valuations (symbol images up to 700 bytes).",
             ref="5/C04"),
 "C08": dict(level="fault_enumeration", technique="Wire.tla (the three layouts as TLA+ functions, canonical elements via Fp129) is the independent parser: MC_WireFaults enumerates faulted encodings with verdicts replayed into the real decoders; Trace_Wire re-parses every logged decoder call (honest values, all prefixes, byte faults, splices, random strings) in TLC",
             text="The fault space of the layout (truncations, every header x boundary values, non-canonical elements, trailing bytes, fault pairs) is enumerated by the model checker and every real decoder call is cross-checked against the TLA+ parser on accept/reject and canonical re-encoding.",
             note="Length headers >= 2^31 form one class in the TLA+ parser (32-bit TLC integers). Byte faults at every offset only in the thorough tier.",
             ref="5/C08"),
 "C09": dict(level="fault_enumeration", technique="the MC_WireFaults enumeration plus degenerate-value classes (all truncations, 18 header values at every header, shares without y, thresholds 0/1/2^32-1, undecodable points in every position, missing proofs, malformed base64 lines) executed under catch_unwind against every listed entry point; the TLA+ parser's verdict is the expected failure result",
             text="Panic-freedom is decided by enumerating the structurally distinct malformed and degenerate inputs per entry point; the specification says which of them must be rejected through the function's own failure value.",
             note="catch_unwind sees panics, not aborts/OOM. Seven genuine defects found this way were repaired in /repo (fix: commits, see known_findings.json).",
             ref="5/C09"),
 "C12": dict(level="model_checking", technique="symbolic group algebra of PPOPRF.tla (blinding scalars cancel) model-checked over all small configurations (MC_Oprf: Oblivious, Separated, BlindFresh); equality-pattern conformance of real blind/eval/unblind/finalize over servers x tags x inputs x OS blindings",
             text="The dependence of the output on exactly (server key, tag, input) is an algebraic invariant checked exhaustively on the symbolic model and bound to the code by comparing equality classes of real outputs across many independent blindings.",
             note="Ideal group and hash; unlinkability is the structural statement 'fresh, pairwise distinct, different from H(x)'.",
             ref="5/C12"),
 "C13": dict(level="fault_enumeration", technique="MC_Oprf enumerates every (component, class) substitution into an honest verifiable evaluation with the ideal-DLEQ verdict (ProofComplete, ProofSound, NonceFresh); each case realised in several byte-level variants on the real Client::verify; commitment recomputation for nonce freshness",
             text="Soundness against tampering is a fault enumeration over the components of the verification equation with the verdict supplied by the specification; completeness also across serialisation; nonce reuse is detected by recomputing commitments.",
             note="Ideal DLEQ (accepts exactly the issued statement); batch proofs over several points are not exercised through the public API (eval issues single-point proofs).",
             ref="5/C13"),
 "C15": dict(level="fault_enumeration", technique="Wire.tla DecPk/DecProof (bincode layouts, size caps, canonical scalars) re-parse every logged loader call in TLC (Trace_Wire); 'restored' cases of the MC_Oprf enumeration and serde-check compare restored values with originals and in verification",
             text="Round-trip equality and interchangeability are checked on real values over all tag-set sizes; the loaders are cross-checked against an independent TLA+ parser on prefixes, byte faults, both caps +-1, inflated counts and non-canonical scalars.",
             note="JSON forms are checked by round trip and a list of malformed documents, not by an independent JSON parser.",
             ref="5/C15"),
 "C18": dict(level="model_checking", technique="Aggregator.tla (bucketing in arbitrary arrival order, threshold filter, worker pool with arbitrary scheduling, join) model-checked by TLC over all interleavings incl. termination under fairness; model configurations scaled and executed on the real AggregationServer under rayon pools of 1..16 threads and input permutations; MC_AggSweep evaluates the specification's Expected for thresholds 1..8 with every below-threshold size next to revealed ones, replayed at scale",
             text="Schedule and order independence are properties of a small concurrent state machine, exhaustively explored in the model; the real server is run on the same configurations (scaled up to hundreds of groups) with different pool sizes and permutations and its output compared with the model's prediction as a set.",
             note="Real rayon schedules are sampled, not controlled. Absent and empty associated data are identified, as the reference server does.",
             ref="5/C18"),
}
NA_REASON = "check not built yet in this round (planned: see DESIGN.md section 5); not claimed until its machinery exists"

checks = []
for i in ids:
    if i in CLAIMED:
        c = CLAIMED[i]
        checks.append({
            "property_id": i,
            "quick_cmd": f"bin/check {i} --tier quick",
            "thorough_cmd": f"bin/check {i} --tier thorough",
            "evidence_file": f"/verif/evidence/{i}.json",
            "replay_cmd_template": f"bin/check {i} --replay {{path}}",
            "engine": "tla-mbt",
            "level_claimed": {"category": c["level"], "text": c["text"], "design_ref": "DESIGN.md section " + c["ref"]},
            "level_note": c["note"],
            "technique": c["technique"],
        })
m = {
 "version": 1,
 "setup_cmd": "cd /verif/harness && ( [ -f Cargo.lock ] || cp /repo/Cargo.lock . ) && cargo build --release --offline",
 "hooks": {
   "guard": "cargo feature `verif-hooks` on crate ppoprf (default off)",
   "enable": "the harness crate /verif/harness depends on /repo/ppoprf with features [\"key-sync\", \"verif-hooks\"]; every check rebuilds it with `cargo build --release --offline`",
   "baseline_off_cmd": "cd /repo && cargo test --workspace --no-fail-fast --offline",
   "source_commits": json.load(open(os.path.join(V, "hook_commits.json"))) if os.path.exists(os.path.join(V, "hook_commits.json")) else [],
   "add_only": True,
 },
 "engines": [{
   "name": "tla-mbt", "path": "/verif/bin/check",
   "serves_properties": sorted(CLAIMED),
   "kind_free_text": "explicit TLA+ specifications (/verif/spec) model-checked with TLC; bound to the code by (A) replay of TLC-generated behaviours/state tables into the crates built from /repo, (B) validation of ndjson traces recorded from the real code against Trace_*.tla, (C) TLC as executable oracle for pure functions",
 }],
 "checks": checks,
 "not_applicable": [{"property_id": i, "reason": NA_REASON} for i in ids if i not in CLAIMED],
 "notes": "Driver: bin/check <ID> --tier quick|thorough. Exit 0 held / 1 VIOLATION / 2 tool error. Known findings: known_findings.json.",
}
json.dump(m, open(os.path.join(V, "MANIFEST.json"), "w"), indent=1)
print("claimed:", sorted(CLAIMED))
