#!/usr/bin/env python3
"""Regenerate MANIFEST.json from the table below (single source of truth for the interface)."""
import json, os
V = os.path.dirname(os.path.dirname(os.path.abspath(__file__)))
props = [json.loads(l) for l in open(os.path.join(V, "properties.jsonl"))]
ids = [p["id"] for p in props]

CLAIMED = {
 "C10": dict(level="model_checking", technique="TLA+ GGM.tla model-checked by TLC (all subsets of 8-16-leaf domains, all histories of a 6-leaf domain); TLC's state/transition table replayed into the real GGM key; recorded 256-step histories trace-validated against the spec (Trace_GGM)",
             text="Exhaustive exploration of the puncture lattice in the TLA+ model with the per-state observation table replayed on the real key after every step, plus all ordered pairs over the full 8-bit domain and long adversarial histories validated as spec behaviours; right level because the property quantifies over histories of a small state machine.",
             note="PRG outputs are treated as ideal (equal iff same tree path); fresh-key values are ground truth; domains beyond 16 leaves are sampled (pairs, 256-step histories), not exhausted.",
             ref="5/C10"),
 "C11": dict(level="model_checking", technique="TLC invariants ForwardSecure/ExactCover on GGM.tla; every lattice state reached on the real key and its retained nodes (verif-hooks) and exported bincode state judged against the fresh key's 510 node seeds; Trace_GGM validates logged retained-node sets",
             text="The invariant is model-checked on every reachable key state of the bounded lattice, and the same predicate is evaluated on the real retained key material and on exported/imported key state at every step.",
             note="Relies on the read-only hook reporting the retained (prefix, seed) list; seeds are compared by value with the fresh key's seeds (ideal PRG: no accidental collisions).",
             ref="5/C11"),
 "C14": dict(level="model_checking", technique="TLA+ PPOPRF.tla (composed with GGM.tla) model-checked by TLC over all histories of puncture/clone/export+import/new-server up to a depth bound; per-state successor and answer tables replayed by BFS on real ppoprf::Server instances; random 200-step histories trace-validated (Trace_PPOPRF)",
             text="Every interleaving of the state-changing calls up to the bound is enumerated in the model and each transition is executed on real server instances with a full observation of every live instance after every step; long random histories are validated as behaviours of the same specification.",
             note="History depth 4 (quick) / 5 (thorough) with <=3 instances and a 4/6-tag universe are exhaustive; beyond that sampled. Group/PRF values ideal: answers compared by value with the first answer seen for (key, tag, point).",
             ref="5/C14"),
}
NA_REASON = "check not built yet in this round (planned: see DESIGN.md section 5); not claimed until its machinery exists"

checks = []
for i in ids:
    if i in CLAIMED:
        c = CLAIMED[i]
        checks.append({
            "property_id": i,
            "quick_cmd": f"bin/check {i} --tier quick",
            "thorough_cmd": f"bin/check {i} --tier thorough",
            "evidence_file": f"/verif/evidence/{i}.json",
            "replay_cmd_template": f"bin/check {i} --replay {{path}}",
            "engine": "tla-mbt",
            "level_claimed": {"category": c["level"], "text": c["text"], "design_ref": "DESIGN.md section " + c["ref"]},
            "level_note": c["note"],
            "technique": c["technique"],
        })
m = {
 "version": 1,
 "setup_cmd": "cd /verif/harness && ( [ -f Cargo.lock ] || cp /repo/Cargo.lock . ) && cargo build --release --offline",
 "hooks": {
   "guard": "cargo feature `verif-hooks` on crate ppoprf (default off)",
   "enable": "the harness crate /verif/harness depends on /repo/ppoprf with features [\"key-sync\", \"verif-hooks\"]; every check rebuilds it with `cargo build --release --offline`",
   "baseline_off_cmd": "cd /repo && cargo test --workspace --no-fail-fast --offline",
   "source_commits": json.load(open(os.path.join(V, "hook_commits.json"))) if os.path.exists(os.path.join(V, "hook_commits.json")) else [],
   "add_only": True,
 },
 "engines": [{
   "name": "tla-mbt", "path": "/verif/bin/check",
   "serves_properties": sorted(CLAIMED),
   "kind_free_text": "explicit TLA+ specifications (/verif/spec) model-checked with TLC; bound to the code by (A) replay of TLC-generated behaviours/state tables into the crates built from /repo, (B) validation of ndjson traces recorded from the real code against Trace_*.tla, (C) TLC as executable oracle for pure functions",
 }],
 "checks": checks,
 "not_applicable": [{"property_id": i, "reason": NA_REASON} for i in ids if i not in CLAIMED],
 "notes": "Driver: bin/check <ID> --tier quick|thorough. Exit 0 held / 1 VIOLATION / 2 tool error. Known findings: known_findings.json.",
}
json.dump(m, open(os.path.join(V, "MANIFEST.json"), "w"), indent=1)
print("claimed:", sorted(CLAIMED))
