"""Driver library: TLC runs, harness runs, evidence and known-findings plumbing."""
import json, os, re, shutil, subprocess, sys, time, hashlib

VERIF = os.path.dirname(os.path.dirname(os.path.abspath(__file__)))
SPEC = os.path.join(VERIF, "spec")
HARNESS = os.path.join(VERIF, "harness")
VH = os.path.join(HARNESS, "target", "release", "vh")
WORK = os.path.join(VERIF, "work")
REPLAYS = os.path.join(VERIF, "replays")
EVIDENCE = os.path.join(VERIF, "evidence")
TLA_JAR = "/opt/veriftools/tla/tla2tools.jar"
JAVA_TLC = ["java", "-Xss512m", "-XX:+UseParallelGC", "-cp",
            TLA_JAR + ":/opt/veriftools/tla/CommunityModules-deps.jar", "tlc2.TLC"]


class ToolError(Exception):
    pass


def log(*a):
    print(*a, file=sys.stderr, flush=True)


def build_harness():
    """(Re)build the harness against /repo's current working tree."""
    t = time.time()
    env = dict(os.environ, CARGO_NET_OFFLINE="true")
    lock = os.path.join(HARNESS, "Cargo.lock")
    if not os.path.exists(lock):
        shutil.copy("/repo/Cargo.lock", lock)
    r = subprocess.run(["cargo", "build", "--release", "--offline"], cwd=HARNESS, env=env,
                       stdout=subprocess.PIPE, stderr=subprocess.STDOUT, text=True)
    if r.returncode != 0:
        log(r.stdout[-4000:])
        raise ToolError("harness build failed (does /repo still compile?)")
    log(f"[build] harness built in {time.time()-t:.1f}s")


def prune_work():
    """Remove scratch directories left by finished check processes (<tag>.<pid> with a dead pid)."""
    if not os.path.isdir(WORK):
        return
    for name in os.listdir(WORK):
        m = re.match(r"^.+\.(\d+)$", name)
        path = os.path.join(WORK, name)
        if m and os.path.isdir(path) and not os.path.exists(f"/proc/{m.group(1)}"):
            shutil.rmtree(path, ignore_errors=True)


def workdir(tag):
    d = os.path.join(WORK, f"{tag}.{os.getpid()}")
    os.makedirs(d, exist_ok=True)
    return d


_tlc_value = re.compile(r'^<<"([A-Z0-9_]+)", (".*")>>$')


class TlcResult:
    def __init__(self):
        self.states = 0          # distinct states
        self.generated = 0       # states generated (= transitions explored + initial)
        self.depth = 0
        self.lines = {}          # tag -> list of decoded JSON objects
        self.ok = False
        self.violation = None    # text of invariant violation
        self.out = ""
        self.wall = 0.0


def run_tlc(module, cfg, **kw):
    """run_tlc with one retry on tool errors (never on violations): a loaded machine can make the JVM fail to start."""
    try:
        return _run_tlc(module, cfg, **kw)
    except ToolError as e:
        log(f"[tlc] {e}; retrying once")
        time.sleep(5)
        return _run_tlc(module, cfg, **kw)


def _save_failure(module, cfg, text):
    try:
        os.makedirs(WORK, exist_ok=True)
        with open(os.path.join(WORK, "last_tlc_failure.txt"), "w") as f:
            f.write(f"{module}/{cfg}\n" + text[-20000:])
    except Exception:
        pass


def _run_tlc(module, cfg, workers=4, timeout=900, env_extra=None, simulate=None, depth=None,
            heap="4g", tags=(), dfs=False, seed=None, tag="tlc"):
    """Run TLC on spec/<module>.tla with spec/mc/<cfg>. PrintT'd <<"TAG", json>> lines are collected."""
    wd = workdir(tag)
    meta = os.path.join(wd, "meta")
    jopts = f"-Xmx{heap}"
    if dfs:
        jopts += " -Dtlc2.tool.queue.IStateQueue=StateDeque"
    env = dict(os.environ, JAVA_TOOL_OPTIONS=jopts)
    if env_extra:
        env.update(env_extra)
    # java is invoked directly (same classpath as the `tlc` wrapper) so that -Xss is on the command
    # line: the launcher sizes the MAIN thread from it, and TLC evaluates initial states, ASSUMEs and
    # the invariants of initial states on the main thread (JAVA_TOOL_OPTIONS is read too late for that)
    cmd = ["timeout", str(timeout)] + JAVA_TLC + ["-workers", str(workers), "-metadir", meta, "-cleanup",
           "-noGenerateSpecTE", "-config", os.path.join(SPEC, "mc", cfg)]
    if simulate:
        cmd += ["-simulate", f"num={simulate}"]
        if depth:
            cmd += ["-depth", str(depth)]
    if seed is not None:
        cmd += ["-seed", str(seed)]
    cmd += [os.path.join(SPEC, module + ".tla")]
    t = time.time()
    p = subprocess.run(cmd, cwd=wd, env=env, stdout=subprocess.PIPE, stderr=subprocess.STDOUT, text=True)
    res = TlcResult()
    res.wall = time.time() - t
    res.out = p.stdout
    keep = []
    for line in p.stdout.splitlines():
        m = _tlc_value.match(line)
        if m and (not tags or m.group(1) in tags):
            try:
                res.lines.setdefault(m.group(1), []).append(json.loads(json.loads(m.group(2))))
            except Exception:
                keep.append(line)
            continue
        keep.append(line)
        m = re.search(r"(\d+) states generated, (\d+) distinct states found", line)
        if m:
            res.generated, res.states = int(m.group(1)), int(m.group(2))
        m = re.search(r"depth of the complete state graph search is (\d+)", line)
        if m:
            res.depth = int(m.group(1))
    text = "\n".join(keep)
    res.text = text
    shutil.rmtree(wd, ignore_errors=True)
    if p.returncode == 124:
        raise ToolError(f"TLC timed out on {module}/{cfg}")
    if "Error: Invariant" in text or "is violated" in text or "Error: Action property" in text \
            or "Temporal properties were violated" in text or "Error: The invariant of" in text:
        res.violation = text[-3000:]
        return res
    if p.returncode != 0 or ("Model checking completed. No error has been found." not in text
                             and "Finished in" not in text):
        _save_failure(module, cfg, text)
        log(text[-1500:])
        raise ToolError(f"TLC failed on {module}/{cfg} (exit {p.returncode})")
    if "Error:" in text:
        _save_failure(module, cfg, text)
        log(text[-1500:])
        raise ToolError(f"TLC reported an error on {module}/{cfg}")
    res.ok = True
    return res


CURRENT_PID = None


def run_vh(args, timeout=1800):
    """Run the harness; returns its report dict."""
    t = time.time()
    args = list(args)
    if CURRENT_PID and "--for" not in args:
        args += ["--for", CURRENT_PID]
    p = subprocess.run(["timeout", str(timeout), VH] + [str(a) for a in args],
                       stdout=subprocess.PIPE, stderr=subprocess.PIPE, text=True)
    rep = None
    for line in p.stdout.splitlines():
        if line.startswith("VHREPORT "):
            rep = json.loads(line[len("VHREPORT "):])
    if p.returncode == 124:
        raise ToolError(f"harness timed out: vh {' '.join(map(str, args))}")
    ABORTS = {134: "SIGABRT", 139: "SIGSEGV", 132: "SIGILL", 135: "SIGBUS", 136: "SIGFPE",
              -6: "SIGABRT", -11: "SIGSEGV", -4: "SIGILL", -7: "SIGBUS", -8: "SIGFPE"}
    if rep is None and p.returncode in ABORTS and CURRENT_PID:
        # the code under test took the whole process down (an abort is not a panic: allocation failure,
        # stack overflow, abort()).  That is an observation about the code, not a tool error: re-run once with
        # case tracking to name the input, and report it as a violation of the property being checked.
        sig = ABORTS[p.returncode]
        cf = os.path.join(workdir((CURRENT_PID or "x") + "-abort"), "case.txt")
        p2 = subprocess.run(["timeout", str(timeout), VH] + [str(a) for a in args], env=dict(os.environ, VH_CASE_FILE=cf),
                            stdout=subprocess.PIPE, stderr=subprocess.PIPE, text=True)
        last = open(cf).read() if os.path.exists(cf) else "?"
        if p2.returncode not in ABORTS:
            log(p.stderr[-2000:])
            raise ToolError(f"harness died with {sig} once and not again: vh {' '.join(map(str, args))}")
        msg = (p2.stderr or p.stderr).strip().splitlines()[-3:]
        rep = {"family": str(args[0]), "evaluations": 0, "traces": 0, "distinct_nontrivial": 0, "counters": {}, "samples": [],
               "violations": [{"property": CURRENT_PID, "site": "process", "input_class": f"process-aborted:{sig}:{args[0]}",
                               "detail": f"the process running `vh {args[0]}` was killed by {sig} inside the code under test "
                                         f"(not a panic: nothing to catch); last case started: {last}; stderr: {' | '.join(msg)[:400]}",
                               "replay": {"last_case": last, "signal": sig}}]}
    if rep is None:
        log(p.stdout[-2000:], p.stderr[-2000:])
        raise ToolError(f"harness produced no report: vh {' '.join(map(str, args))} (exit {p.returncode})")
    rep["cmd"] = [str(a) for a in args]
    rep["wall_s"] = time.time() - t
    return rep


def validate_trace(module, cfg, trace_path, timeout=900, heap="3g", env_extra=None, tag="trace"):
    """Trace validation (binding B/C): TLC must consume the whole ndjson trace.
    Returns (TlcResult, rejection) where rejection is None or {'at': n, 'ev': {...}} / {'invariant': text}."""
    wd = workdir(tag)
    env = dict(os.environ, TRACE=trace_path,
               JAVA_TOOL_OPTIONS=f"-Xmx{heap} -Xms1g -Xmn512m -XX:ParallelGCThreads=2")
    if env_extra:
        env.update(env_extra)
    cmd = ["timeout", str(timeout)] + JAVA_TLC + ["-workers", "1", "-metadir", os.path.join(wd, "meta"), "-cleanup",
           "-noGenerateSpecTE", "-config", os.path.join(SPEC, "mc", cfg), os.path.join(SPEC, module + ".tla")]
    t = time.time()
    p = subprocess.run(cmd, cwd=wd, env=env, stdout=subprocess.PIPE, stderr=subprocess.STDOUT, text=True)
    shutil.rmtree(wd, ignore_errors=True)
    res = TlcResult()
    res.wall = time.time() - t
    res.text = p.stdout
    rej = None
    for line in p.stdout.splitlines():
        m = re.search(r"(\d+) states generated, (\d+) distinct states found", line)
        if m:
            res.generated, res.states = int(m.group(1)), int(m.group(2))
        m = _tlc_value.match(line)
        if m and m.group(1) == "REJECTED":
            rej = json.loads(json.loads(m.group(2)))
        m = re.match(r'^<<"AGREE", (\d+), (\d+)>>$', line)
        if m:   # outcomes equal to the code-shaped reference model / outcomes judged (contract-level validation)
            res.agree = (int(m.group(1)), int(m.group(2)))
    if p.returncode == 124:
        raise ToolError(f"TLC timed out validating {trace_path}")
    if rej is not None:
        return res, rej
    if "Error: Invariant" in p.stdout and "is violated" in p.stdout:
        m = re.search(r"Error: Invariant (\S+) is violated", p.stdout)
        return res, {"invariant": m.group(1) if m else "?", "at": res.states,
                     "text": p.stdout[-1500:]}
    if "Model checking completed. No error has been found." not in p.stdout:
        log(p.stdout[-3000:])
        raise ToolError(f"TLC failed validating {trace_path} with {module}/{cfg}")
    res.ok = True
    return res, None


def write_ndjson(path, objs):
    with open(path, "w") as f:
        for o in objs:
            f.write(json.dumps(o, separators=(",", ":")) + "\n")


def load_known():
    p = os.path.join(VERIF, "known_findings.json")
    if not os.path.exists(p):
        return []
    return json.load(open(p))


class Outcome:
    """Accumulates what one check invocation covered."""

    def __init__(self, pid, tier, seed, level):
        self.pid, self.tier, self.seed, self.level = pid, tier, seed, level
        self.t0 = time.time()
        self.states = 0
        self.transitions = 0
        self.traces = 0
        self.evaluations = 0
        self.nontrivial = 0
        self.samples = []
        self.violations = []   # dicts: property, site, input_class, detail, replay
        self.extra = {}
        self.assumptions = []
        self.rule = ""
        self.exhaustive = None

    def add_tlc(self, res, name):
        self.states += res.states
        self.transitions += max(res.generated - 1, 0)
        self.extra.setdefault("tlc_runs", []).append(
            {"model": name, "distinct_states": res.states, "states_generated": res.generated,
             "depth": res.depth, "wall_s": round(res.wall, 1)})
        if res.violation:
            self.violations.append({"property": self.pid, "site": "spec:" + name, "input_class": "model",
                                    "detail": "TLC reports a violated invariant/property in the specification "
                                              "itself:\n" + res.violation, "replay": {"tlc": name}})

    def add_vh(self, rep, only=None):
        self.evaluations += rep.get("evaluations", 0)
        self.nontrivial += rep.get("distinct_nontrivial", 0)
        self.traces += rep.get("traces", 0)
        for s in rep.get("samples", []):
            if len(self.samples) < 6:
                self.samples.append(s)
        self.extra.setdefault("harness_runs", []).append(
            {"cmd": "vh " + " ".join(rep["cmd"]), "evaluations": rep.get("evaluations", 0),
             "counters": rep.get("counters", {}), "wall_s": round(rep.get("wall_s", 0), 1)})
        for v in rep.get("violations", []):
            if only is not None and v["property"] not in only:
                self.extra.setdefault("other_property_observations", []).append(
                    {"property": v["property"], "site": v["site"], "input_class": v["input_class"]})
                continue
            v = dict(v)
            v["cmd"] = rep["cmd"]
            self.violations.append(v)

    def finish(self):
        """Write evidence, print VIOLATION / KNOWN-FINDING lines, return exit code."""
        known = [k for k in load_known() if k.get("status") == "known"]
        real = []
        for v in self.violations:
            hit = None
            for k in known:
                if k["property"] == v["property"] and k["site"] == v["site"] and k["input_class"] == v["input_class"]:
                    hit = k
            if hit:
                print(f"KNOWN-FINDING: property={v['property']} site={v['site']} "
                      f"input_class={v['input_class']} {hit.get('what','')}")
            else:
                real.append(v)
        os.makedirs(EVIDENCE, exist_ok=True)
        cov = {
            "evaluations": int(self.evaluations),
            "distinct_nontrivial": int(self.nontrivial),
            "rule": self.rule,
            "samples": self.samples if self.samples else [{"note": "no sample recorded"}],
        }
        if self.level == "model_checking":
            cov.update({"states": int(self.states), "transitions": int(self.transitions),
                        "traces_validated_against_impl": int(self.traces)})
        if self.exhaustive is not None:
            cov["exhaustive"] = self.exhaustive
        cov.update(self.extra)
        ev = {
            "property_id": self.pid, "tier": self.tier, "seed": int(self.seed), "level": self.level,
            "coverage": cov, "assumptions": self.assumptions,
            "wall_s": round(time.time() - self.t0, 2), "violations": len(real),
        }
        with open(os.path.join(EVIDENCE, f"{self.pid}.json"), "w") as f:
            json.dump(ev, f, indent=1)
        if not real:
            log(f"[{self.pid}] held: states={self.states} transitions={self.transitions} "
                f"evaluations={self.evaluations} traces={self.traces} wall={ev['wall_s']}s")
            return 0
        os.makedirs(REPLAYS, exist_ok=True)
        for i, v in enumerate(real):
            h = hashlib.sha1(json.dumps(v, sort_keys=True).encode()).hexdigest()[:10]
            path = os.path.join(REPLAYS, f"{self.pid}-{h}.json")
            # keep input files the replay needs next to it
            cmd = v.get("cmd")
            if cmd:
                cmd = list(cmd)
                for j, a in enumerate(cmd):
                    if isinstance(a, str) and a.startswith(WORK) and os.path.isfile(a):
                        dst = os.path.join(REPLAYS, f"{self.pid}-{h}-{os.path.basename(a)}")
                        shutil.copy(a, dst)
                        cmd[j] = dst
                v["cmd"] = cmd
            with open(path, "w") as f:
                json.dump(v, f, indent=1)
            log(f"[{self.pid}] {v['site']} / {v['input_class']}: {v['detail'][:600]}")
            print(f"VIOLATION property={v['property']} replay={path}")
        return 1
