"""Per-property decision procedures (DESIGN.md section 5)."""
import os, json
from vlib import *

CHECKS = {}


def check(pid):
    def deco(f):
        CHECKS[pid] = f
        return f
    return deco


IDEAL = "ideal primitives: two Strobe/PRG outputs are equal iff their symbolic terms are equal (fails with probability <= 2^-100 per comparison)"


def _ggm_table(out, cfg, tag, workers=8, timeout=1500):
    res = run_tlc("MC_GGM", cfg, workers=workers, timeout=timeout, tags=("GGMSTATE",), tag=tag)
    out.add_tlc(res, "MC_GGM/" + cfg)
    wd = workdir(tag + "-tbl")
    path = os.path.join(wd, cfg + ".states.ndjson")
    write_ndjson(path, res.lines.get("GGMSTATE", []))
    if res.ok and not res.lines.get("GGMSTATE"):
        raise ToolError("TLC emitted no state table for " + cfg)
    return path, res


def _ggm_trace(out, pid, seed, runs, steps, order_offset=0):
    wd = workdir(pid + "-trace")
    tr = os.path.join(wd, f"ggm{order_offset}.ndjson")
    rep = run_vh(["ggm-record", "--out", tr, "--seed", seed, "--runs", runs, "--steps", steps, "--order-offset", order_offset])
    out.add_vh(rep, only={pid})
    res, rej = validate_trace("Trace_GGM", "Trace_GGM_c10.cfg" if pid == "C10" else "Trace_GGM_c11.cfg", tr, tag=pid + "-tv")
    out.states += res.states
    out.transitions += max(res.generated - 1, 0)
    out.extra.setdefault("trace_validation", []).append(
        {"spec": "Trace_GGM", "events": sum(1 for _ in open(tr)), "accepted": rej is None,
         "wall_s": round(res.wall, 1)})
    if rej is not None:
        out.violations.append({
            "property": pid, "site": "Trace_GGM", "input_class": "trace-rejected:" + str(rej.get("ev", {}).get("ev", rej.get("invariant"))),
            "detail": "recorded GGM history is not a behaviour of the specification; first unmatched event: "
                      + json.dumps(rej)[:1500],
            "replay": {"trace": tr, "rejected": rej},
            "validate": ["Trace_GGM", "Trace_GGM_c10.cfg" if pid == "C10" else "Trace_GGM_c11.cfg"],
            "cmd": ["ggm-record", "--out", tr, "--seed", str(seed), "--runs", str(runs), "--steps", str(steps),
                    "--order-offset", str(order_offset)]})
        out.traces -= min(out.traces, runs)   # recorded but not accepted


def _run_tool(cmd, cwd, timeout, env=None):
    p = subprocess.run(["timeout", str(timeout)] + cmd, cwd=cwd, env=env, stdout=subprocess.PIPE, stderr=subprocess.STDOUT, text=True)
    if p.returncode == 124:
        raise ToolError("timed out: " + " ".join(cmd[:4]))
    return p.stdout


def _ggm_unbounded(out, pid, thorough, light=False):
    """The unbounded leg of C10/C11 at model level, three specifications deep:
       GGM.tla (code-shaped; bound to the code by replay and trace validation)
         refines GGM_Ind (node identifiers; inductive invariant over the complete tree, Apalache)
         refines GGM_Abs (leaf sets; invariant proved with TLAPS for every domain).
       The refinements and the finite tree lemma are checked by TLC (MC_GGM cfgs carry RefinesInd)."""
    t0 = time.time()
    proofs = []
    # (1) TLAPS: Inv is inductive for GGM_Abs, for every input domain and tree shape
    wd = workdir(pid + "-tlaps")
    for f in ("GGM_Abs.tla", "TLAPS.tla"):
        shutil.copy(os.path.join(SPEC, f), wd)
    txt = _run_tool(["tlapm", "--threads", "6", "GGM_Abs.tla"], wd, 900)
    m = re.search(r"All (\d+) obligations? proved", txt)
    shutil.rmtree(wd, ignore_errors=True)
    if not m:
        log(txt[-3000:])
        raise ToolError("tlapm did not prove GGM_Abs.tla")
    proofs.append({"tool": "tlapm", "module": "GGM_Abs", "theorems": ["Safety: Spec => []Inv", "Consequences: Inv => ForwardSecure /\\ CoveredOnce",
                   "StepInv: a step uncovers the punctured input only"], "obligations_proved": int(m.group(1)), "bound": "none (any input set, any tree shape)"})
    # (2) TLC: tree lemma for the 8-bit tree + refinement GGM_Ind => GGM_Abs
    cfgs = ["GGMAbs_d8_first.cfg"] if light else ["GGMAbs_d3.cfg", "GGMAbs_d8_first.cfg"]
    if thorough:
        cfgs = ["GGMAbs_d3.cfg", "GGMAbs_d4.cfg", "GGMAbs_d8_pairs.cfg"]
    for cfg in cfgs:
        r = run_tlc("MC_GGM_Abs", cfg, workers=6, timeout=3000, tag=pid + "-" + cfg[:-4])
        out.add_tlc(r, "MC_GGM_Abs/" + cfg)
    if thorough:
        r = run_tlc("MC_GGM_Abs", "GGMAbs_d8_sim.cfg", workers=1, timeout=3000, simulate=6, depth=257, tag=pid + "-abs-sim")
        out.add_tlc(r, "MC_GGM_Abs/GGMAbs_d8_sim.cfg (6 complete puncture orders)")
    # (3) Apalache: IndInv of GGM_Ind is inductive (symbolic: all punctured sets at once)
    if not light:
        runs = [("GGMInd_base8.apa.cfg", 0, "Init => IndInv, depth 8"), ("GGMInd_step3.apa.cfg", 1, "IndInv /\\ Next => IndInv', depth 3")]
        if thorough:
            runs.append(("GGMInd_step4.apa.cfg", 1, "IndInv /\\ Next => IndInv', depth 4"))
        for cfg, length, what in runs:
            wd = workdir(pid + "-apa")
            for f in ("GGM_Ind.tla", "MC_GGM_Ind.tla"):
                shutil.copy(os.path.join(SPEC, f), wd)
            shutil.copy(os.path.join(SPEC, "mc", cfg), wd)
            txt = _run_tool(["apalache-mc", "check", "--config=" + cfg, "--length=" + str(length), "--out-dir=" + os.path.join(wd, "o"),
                             "MC_GGM_Ind.tla"], wd, 3000, env=dict(os.environ, JVM_ARGS="-Xmx8g"))
            shutil.rmtree(wd, ignore_errors=True)
            if "The outcome is: NoError" not in txt:
                log(txt[-3000:])
                if "The outcome is: Error" in txt:
                    out.violations.append({"property": pid, "site": "GGM_Ind", "input_class": "inductive-invariant-fails:" + cfg,
                                           "detail": "Apalache found a counterexample to the inductive invariant of GGM_Ind", "replay": {"config": cfg}})
                    continue
                raise ToolError("apalache-mc failed on " + cfg)
            proofs.append({"tool": "apalache-mc", "module": "GGM_Ind", "obligation": what, "outcome": "NoError"})
    out.extra["unbounded_model_argument"] = {"chain": "GGM (code-shaped, TLC + conformance) => GGM_Ind (Apalache inductive invariant) => GGM_Abs (TLAPS proof)",
                                             "proofs": proofs, "wall_s": round(time.time() - t0, 1)}


@check("C10")
def c10(tier, seed):
    out = Outcome("C10", tier, seed, "model_checking")
    out.rule = ("TLC enumerates every subset of the puncture domain (set-level VIEW) plus all histories of a 6-leaf "
                "domain; the harness walks the emitted state table on the real GGM key: a case is one (state, input) "
                "transition or one visited state; distinct = distinct punctured set / (set, input) pair / ordered pair; "
                "long histories are recorded and validated by Trace_GGM")
    out.assumptions = [IDEAL, "fresh-key values are ground truth for 'the value it had before any puncturing'"]
    thorough = tier == "thorough"
    # all histories (no VIEW) of a small domain: the specification's invariants on order-dependent state
    r = run_tlc("MC_GGM", "GGM_hist6.cfg", workers=6, tag="C10-hist6")
    out.add_tlc(r, "MC_GGM/GGM_hist6.cfg")
    t6, _ = _ggm_table(out, "GGM_hist6v.cfg", "C10-hist6v", workers=4)
    out.add_vh(run_vh(["ggm-replay", "--states", t6, "--mode", "tree"]), only={"C10"})
    for cfg in (["GGM_sib10.cfg"] if not thorough else ["GGM_low8.cfg", "GGM_sib10.cfg", "GGM_cous10.cfg", "GGM_unal12.cfg", "GGM_sub16.cfg", "GGM_mixed16.cfg"]):
        tbl, _ = _ggm_table(out, cfg, "C10-" + cfg[:-4], workers=10, timeout=3000)
        out.add_vh(run_vh(["ggm-replay", "--states", tbl, "--mode", "lattice"], timeout=3000), only={"C10"})
    if thorough:
        r = run_tlc("MC_GGM", "GGM_full4.cfg", workers=10, timeout=1800, tag="C10-full4")
        out.add_tlc(r, "MC_GGM/GGM_full4.cfg")
    out.add_vh(run_vh(["ggm-pairs", "--stride", 1 if thorough else 8, "--seed", seed]), only={"C10"})
    out.add_vh(run_vh(["ggm-sparse", "--stride", 1 if thorough else 6, "--seed", seed], timeout=3000), only={"C10"})
    _ggm_trace(out, "C10", seed, 8 if thorough else 2, 256 if thorough else 80)
    _ggm_trace(out, "C10", seed + 7, 2 if thorough else 1, 256, order_offset=6)   # complete puncturing: all 256 inputs
    _ggm_unbounded(out, "C10", thorough)
    out.exhaustive = False
    return out


def _protocol_stage(out, pid, thorough):
    """End-to-end composition (Protocol.tla): epochs, rotation by puncturing, key-state theft, dictionary attack."""
    res = run_tlc("MC_Protocol", "Protocol_q.cfg", workers=8, timeout=1800, tags=("PROTO",), tag=pid + "-proto", heap="6g")
    out.add_tlc(res, "MC_Protocol/Protocol_q.cfg")
    _expect_spec_violation(out, "MC_Protocol", "Protocol_local.cfg", "dictionary-attack resistance of locally derived randomness")
    if res.ok:
        if len(res.lines.get("PROTO", [])) < 100:
            raise ToolError("MC_Protocol emitted too few behaviours")
        wd = workdir(pid + "-proto-tbl")
        lp = os.path.join(wd, "proto.ndjson")
        write_ndjson(lp, res.lines["PROTO"])
        out.add_vh(run_vh(["protocol-replay", "--lines", lp, "--stride", 1 if thorough else 5], timeout=3000), only={pid})


@check("C11")
def c11(tier, seed):
    out = Outcome("C11", tier, seed, "model_checking")
    out.rule = ("every state of the TLC-enumerated puncture lattice is reached on the real key and the retained nodes "
                "(hook) are judged: disjoint exact cover of the unpunctured inputs, no node or seed on the path to a "
                "punctured input (seeds compared with the fresh key's seeds of all 510 tree nodes); the exported key "
                "state is byte-scanned for those seeds at every export point and re-examined after import; "
                "distinct = distinct punctured set / export point")
    out.assumptions = [IDEAL, "the hook reports the retained (prefix, seed) list faithfully (it is add-only, read-only)"]
    thorough = tier == "thorough"
    for cfg in (["GGM_cous10.cfg"] if not thorough else ["GGM_sib10.cfg", "GGM_cous10.cfg", "GGM_unal12.cfg", "GGM_sub16.cfg"]):
        tbl, _ = _ggm_table(out, cfg, "C11-" + cfg[:-4], workers=10, timeout=3000)
        out.add_vh(run_vh(["ggm-replay", "--states", tbl, "--mode", "lattice", "--c11"], timeout=3000), only={"C11"})
    out.add_vh(run_vh(["ggm-export", "--seed", seed, "--runs", 16 if thorough else 6,
                       "--steps", 256 if thorough else 40]), only={"C11"})
    _ggm_trace(out, "C11", seed + 1, 8 if thorough else 2, 256 if thorough else 80)
    _ggm_trace(out, "C11", seed + 8, 2 if thorough else 1, 256, order_offset=4)
    _protocol_stage(out, "C11", thorough)
    _expect_spec_violation(out, "Neg_GGM", "Neg_GGM.cfg", "ForwardSecure for a puncture that only black-lists the input")
    _ggm_unbounded(out, "C11", thorough, light=not thorough)
    return out


def _purity(out, pid, seed, rounds=3):
    """History independence of the deterministic calls behind `pid` (Trace_Pure): same call => same result,
    demanded result classes on every execution, three threads, shuffled orders."""
    wd = workdir(pid + "-pure")
    tr = os.path.join(wd, "pure.ndjson")
    cmd = ["purity-record", "--out", tr, "--seed", seed, "--rounds", rounds]
    out.add_vh(run_vh(cmd), only={pid})
    _trace_check(out, pid, "Trace_Pure", "Trace_Pure.cfg", tr, cmd, 1, "call log (history independence)")


def _trace_check(out, pid, module, cfg, tr, cmd, ntraces, label):
    res, rej = validate_trace(module, cfg, tr, tag=pid + "-tv")
    out.states += res.states
    out.transitions += max(res.generated - 1, 0)
    out.extra.setdefault("trace_validation", []).append(
        {"spec": module, "events": sum(1 for _ in open(tr)), "accepted": rej is None, "wall_s": round(res.wall, 1)})
    if getattr(res, "agree", None):
        out.extra["trace_validation"][-1]["outcomes_equal_to_reference_model"] = res.agree[0]
        out.extra["trace_validation"][-1]["outcomes_judged_by_contract"] = res.agree[1]
    if rej is not None:
        evname = str(rej.get("ev", {}).get("ev", rej.get("invariant"))) if isinstance(rej.get("ev", {}), dict) else "?"
        out.violations.append({
            "property": pid, "site": module, "input_class": "trace-rejected:" + evname,
            "detail": f"recorded {label} is not a behaviour of the specification; first unmatched event: "
                      + json.dumps(rej)[:1500],
            "replay": {"trace": tr, "rejected": rej}, "validate": [module, cfg], "cmd": [str(c) for c in cmd]})
        out.traces -= min(out.traces, ntraces)   # recorded but not accepted


def _srv_table(out, cfg, tag, workers=10, timeout=2400):
    res = run_tlc("MC_PPOPRF", cfg, workers=workers, timeout=timeout, tags=("SRVSTATE",), tag=tag, heap="8g")
    out.add_tlc(res, "MC_PPOPRF/" + cfg)
    wd = workdir(tag + "-tbl")
    path = os.path.join(wd, cfg + ".states.ndjson")
    write_ndjson(path, res.lines.get("SRVSTATE", []))
    if res.ok and not res.lines.get("SRVSTATE"):
        raise ToolError("TLC emitted no state table for " + cfg)
    return path


@check("C14")
def c14(tier, seed):
    out = Outcome("C14", tier, seed, "model_checking")
    thorough = tier == "thorough"
    out.rule = ("TLC explores every history over {puncture(i,tag), clone(i), export+import(i), new independently keyed "
                "server} up to the depth bound with <=3 instances (set-level VIEW) and emits each state's successor and "
                "answer table; the harness performs a BFS with real ppoprf::Server instances, applying every transition "
                "and observing every instance (eval of every tag x points x plain/verifiable, public key); "
                "distinct = distinct state / (state, action) pair; random 200-step histories are validated by Trace_PPOPRF")
    out.assumptions = [IDEAL, "answers are compared by value with the first answer seen for (key, tag, point)"]
    cfg, depth = ("PPOPRF_t.cfg", 5) if thorough else ("PPOPRF_q.cfg", 4)
    tbl = _srv_table(out, cfg, "C14")
    out.add_vh(run_vh(["srv-replay", "--states", tbl, "--max-steps", depth], timeout=3000), only={"C14"})
    wd = workdir("C14-trace")
    tr = os.path.join(wd, "srv.ndjson")
    cmd = ["srv-record", "--out", tr, "--seed", seed, "--runs", 12 if thorough else 4, "--steps", 200]
    out.add_vh(run_vh(cmd), only={"C14"})
    _trace_check(out, "C14", "Trace_PPOPRF", "Trace_PPOPRF.cfg", tr, cmd, 12 if thorough else 4, "server history")
    out.add_vh(run_vh(["srv-alltags", "--seed", seed], timeout=3000), only={"C14"})
    _expect_spec_violation(out, "Neg_PPOPRF", "Neg_PPOPRF.cfg", "NewLikeExisting for an import that keeps its own GGM key")
    return out


def _star_lines(out, cfg, tag, workers=8, timeout=1800):
    """Run MC_Star with a config; returns (cfg_path, lines_path, n_lines)."""
    res = run_tlc("MC_Star", cfg, workers=workers, timeout=timeout, tags=("STARCFG", "RECOVER"), tag=tag, heap="6g")
    out.add_tlc(res, "MC_Star/" + cfg)
    wd = workdir(tag + "-tbl")
    cp = os.path.join(wd, cfg + ".clients.json")
    lp = os.path.join(wd, cfg + ".lines.ndjson")
    if not res.lines.get("STARCFG"):
        if res.violation:
            return None, None, 0
        raise ToolError("TLC emitted no STARCFG line for " + cfg)
    write_ndjson(cp, res.lines["STARCFG"][:1])
    write_ndjson(lp, res.lines.get("RECOVER", []))
    return cp, lp, len(res.lines.get("RECOVER", []))


def _star_secrecy(out, cfg):
    """Secrecy invariants (knowledge closure) on every observation set reachable by the eavesdropper."""
    cfg = {"Star_secrecy.cfg": "Secrecy_q.cfg", "Star_secrecy_t.cfg": "Secrecy_t.cfg"}.get(cfg, cfg)
    res = run_tlc("MC_Secrecy", cfg, workers=4, timeout=600, tag="secrecy")
    out.add_tlc(res, "MC_Secrecy/" + cfg)


def _recover_family(out, pid, cfgs, seed, vals, stride=1):
    for cfg in cfgs:
        cp, lp, n = _star_lines(out, cfg, f"{pid}-{cfg[:-4]}")
        if cp is None:
            continue
        rep = run_vh(["recover-replay", "--cfg", cp, "--lines", lp, "--prop", pid, "--seed", seed,
                      "--vals", vals, "--stride", stride], timeout=3000)
        out.add_vh(rep, only={pid})


def _star_big(out, pid, seed, thorough):
    """Binding B at large scope: random scenarios (thresholds up to 64 / 200) validated by Trace_Star."""
    wd = workdir(pid + "-big")
    tr = os.path.join(wd, "star.ndjson")
    # every threshold 1..40 (quick 1..20) in turn, then sampled large ones (up to 64 / 200, and 257+ thorough)
    sweep = 130 if thorough else 66
    n = sweep + (24 if thorough else 6)
    cmd = ["star-record", "--out", tr, "--seed", seed, "--scenarios", n, "--maxt", 260 if thorough else 64,
           "--prop", pid, "--selections", 40 if thorough else 16, "--sweep", sweep, "--bigt", 300 if thorough else 257]
    out.add_vh(run_vh(cmd, timeout=3000), only={pid})
    _trace_check(out, pid, "Trace_Star", "Trace_Star.cfg", tr, cmd, n, "STAR recovery scenario")


STAR_ASSUME = ("symbolic model: PRF/MAC/cipher outputs are ideal (terms equal iff identical; wrong-key decryption and "
               "interpolation of points not on one low-degree polynomial give junk); abstract strings are mapped to bytes "
               "by several injective valuations, thresholds 0..3 are used as they are")


@check("C01")
def c01(tier, seed):
    out = Outcome("C01", tier, seed, "model_checking")
    thorough = tier == "thorough"
    out.rule = ("TLC enumerates every inbox sequence (repetition allowed) over the client population up to the length "
                "bound and checks ThresholdRecovery; each honest behaviour predicted to recover is executed through "
                "Message::generate -> to_bytes -> from_bytes -> share_recover -> derive_ske_key -> decrypt -> parse under "
                "several byte valuations; distinct = (valuation, inbox sequence) whose recovery opened every report of the "
                "group correctly; the random driver adds thresholds up to 64/200 validated by Trace_Star")
    out.assumptions = [STAR_ASSUME]
    # Clients_Q: thresholds 2/3, measurement and threshold-only differences; Clients_T: thresholds 0/1/3,
    # epoch-only difference, empty measurement and epoch, the randomness-server source
    _recover_family(out, "C01", ["Star_q_honest.cfg", "Star_t_honest.cfg" if thorough else "Star_t4_honest.cfg"], seed,
                    8 if thorough else 4)
    _star_big(out, "C01", seed, thorough)
    out.add_vh(run_vh(["length-sweep", "--prop", "C01", "--seed", seed, "--max", 700 if thorough else 200], timeout=3000), only={"C01"})
    out.add_vh(run_vh(["generator-reuse", "--seed", seed], timeout=3000), only={"C01"})
    _purity(out, "C01", seed, rounds=4 if tier == "thorough" else 3)
    return out


@check("C05")
def c05(tier, seed):
    out = Outcome("C05", tier, seed, "fault_enumeration")
    thorough = tier == "thorough"
    out.rule = ("TLC enumerates every inbox sequence with at most one altered share (10 field-level fault kinds x every "
                "position) and predicts Err / Ok(sharing of the first share); the harness realises each fault on the "
                "encoded share and calls share_recover; distinct_nontrivial = distinct (valuation, inbox) with a fault or a "
                "predicted error; the byte-level sweep alters every byte of the first and of a later share")
    out.assumptions = [STAR_ASSUME, "valuations with 1-byte symbols are skipped for altered collections (a wrong key "
                       "reproduces a 1-byte plaintext with probability 2^-8)"]
    _recover_family(out, "C05", ["Star_q_faults.cfg", "Star_a_faults.cfg", "Star_t_faults.cfg" if thorough else "Star_t3_faults.cfg"],
                    seed, 6 if thorough else 4, stride=1 if thorough else 2)
    if thorough:
        # inboxes of four shares: an altered or foreign share after three genuine ones of the threshold-3 group
        _recover_family(out, "C05", ["Star_q_faults4.cfg", "Star_a_faults4.cfg"], seed + 3, 6, stride=3)
    for k in range(6 if thorough else 1):
        out.add_vh(run_vh(["tamper-sweep", "--seed", seed + k, "--positions", "all"], timeout=3000), only={"C05"})
    _expect_spec_violation(out, "Neg_Adss", "Neg_Adss.cfg", "authenticated recovery when the MAC does not cover the threshold")
    _purity(out, "C05", seed, rounds=4 if tier == "thorough" else 3)
    return out


@check("C16")
def c16(tier, seed):
    out = Outcome("C16", tier, seed, "model_checking")
    thorough = tier == "thorough"
    out.rule = ("TLC enumerates inbox sequences over direct ADSS sharings (thresholds 0..3, empty message/coins, custom "
                "transcript, shares of independent share() invocations) with and without one altered share; the harness "
                "executes them with Commune::new/share/recover, compares independently produced shares byte-wise outside "
                "the point, and re-shares every 7th recovered commune; adss-sizes covers lengths up to 100k and t<=128")
    out.assumptions = [STAR_ASSUME]
    _recover_family(out, "C16", ["Star_a_honest.cfg", "Star_a_faults.cfg"], seed, 6 if thorough else 4,
                    stride=1 if thorough else 2)
    out.add_vh(run_vh(["adss-sizes", "--seed", seed, "--tier", tier], timeout=3000), only={"C16"})
    out.add_vh(run_vh(["length-sweep", "--prop", "C16", "--seed", seed, "--max", 700 if thorough else 200], timeout=3000), only={"C16"})
    return out


@check("C17")
def c17(tier, seed):
    out = Outcome("C17", tier, seed, "model_checking")
    thorough = tier == "thorough"
    out.rule = ("the honest inbox behaviours of MC_Star (counts t-1, t, t+1, mixtures of measurements, thresholds and "
                "epochs) are executed through star_wasm::create_share / group_shares with UTF-8 valuations (incl. empty and "
                "non-ASCII epochs); create_share output is compared with the core library; distinct = distinct inbox x valuation")
    out.assumptions = [STAR_ASSUME, "group_shares is called natively (rlib), not through a WASM runtime"]
    _recover_family(out, "C17", ["Star_q_honest.cfg", "Star_t_honest.cfg" if thorough else "Star_t4_honest.cfg"], seed, 12)
    _purity(out, "C17", seed, rounds=4 if tier == "thorough" else 3)
    return out


def _sharded_trace(out, pid, module, cfg, record_cmd_fn, shards, label):
    """Record `shards` traces with the harness and validate them with parallel TLC processes."""
    import concurrent.futures
    wd = workdir(pid + "-shards")
    jobs = []
    for k in range(shards):
        tr = os.path.join(wd, f"t{k}.ndjson")
        cmd = record_cmd_fn(k, tr)
        out.add_vh(run_vh(cmd, timeout=3000), only={pid})
        jobs.append((tr, cmd))
    def one(j):
        return validate_trace(module, cfg, j[0], timeout=3000, tag=f"{pid}-tv{os.path.basename(j[0])}")
    with concurrent.futures.ThreadPoolExecutor(max_workers=min(6, shards)) as ex:
        results = list(ex.map(one, jobs))
    for (tr, cmd), (res, rej) in zip(jobs, results):
        out.states += res.states
        out.transitions += max(res.generated - 1, 0)
        out.extra.setdefault("trace_validation", []).append(
            {"spec": module, "events": sum(1 for _ in open(tr)), "accepted": rej is None, "wall_s": round(res.wall, 1)})
        if getattr(res, "agree", None):
            out.extra["trace_validation"][-1]["outcomes_equal_to_reference_model"] = res.agree[0]
            out.extra["trace_validation"][-1]["outcomes_judged_by_contract"] = res.agree[1]
        if rej is not None:
            ev = rej.get("ev", {})
            evname = ev.get("ev", "?") if isinstance(ev, dict) else str(rej.get("invariant"))
            opname = ev.get("op", ev.get("dec", "")) if isinstance(ev, dict) else ""
            out.violations.append({
                "property": pid, "site": module, "input_class": f"trace-rejected:{evname}:{opname}",
                "detail": f"recorded {label} disagrees with the specification evaluated by TLC; first unmatched event: "
                          + json.dumps(rej)[:1500],
                "replay": {"trace": tr, "rejected": rej}, "validate": [module, cfg], "cmd": [str(c) for c in cmd]})
            out.traces -= min(out.traces, 1)


@check("C07")
def c07(tier, seed):
    out = Outcome("C07", tier, seed, "exploration")
    thorough = tier == "thorough"
    out.rule = ("each event is one call of add/sub/neg/double/mul/square/invert/pow/sqrt/from_repr/to_repr of "
                "star_sharks::Fp on operands from a boundary lattice (0, 1, 2^64, 2^128, (p-1)/2, p-1, 12451 +-1, ...) crossed "
                "with itself plus seeded uniform operands, and TLC recomputes it with Fp129.tla (base-256 limb arithmetic); "
                "distinct = distinct (operation, operands); the published constants are checked by ConstantsOK; the limb "
                "algorithms themselves are validated against native integers and ring axioms (MC_Fp)")
    out.assumptions = ["(p-1)/2 = 2^127+6225 is prime (checked once with sympy, trusted by the generator criterion)",
                       "element values are read through to_repr; a consistently wrong encoding would fail the from/to events"]
    r = run_tlc("MC_Fp", "MC_Fp.cfg", workers=1, timeout=600, tag="C07-selfcheck")
    out.add_tlc(r, "MC_Fp (self-check of the TLA+ big-integer arithmetic)")
    out.extra["spec_selfcheck_states"] = r.states
    n = 4000 if thorough else 700
    shards = 12 if thorough else 3
    _sharded_trace(out, "C07", "Trace_Field", "Trace_Field.cfg",
                   lambda k, tr: ["field-record", "--out", tr, "--seed", seed + k, "--n", n,
                                  "--sqrt-full", 8 if thorough else 3, "--pow-full", 3 if thorough else 1],
                   shards, "field operation log")
    return out


def _shamir_small(out, cfgs):
    for c in cfgs:
        r = run_tlc("MC_ShamirSmall", c, workers=8, timeout=1500, tag="shamir-" + c[:-4], heap="8g")
        out.add_tlc(r, "MC_ShamirSmall/" + c)


@check("C02")
def c02(tier, seed):
    out = Outcome("C02", tier, seed, "model_checking")
    thorough = tier == "thorough"
    out.rule = ("(i) TLC enumerates every inbox sequence over mixtures of sharings with forged thresholds (thr-, thr0, thr+ at "
                "every position), duplicates and foreign shares and checks NoSubThresholdRecovery; each behaviour is executed "
                "on real encoded shares; (ii) the knowledge closure Know(obs) over every observation subset reveals no secret "
                "below threshold (SubThresholdSecrecy) and every encoded report is byte-scanned for the secrets obtained "
                "through the public API; (iii) a coefficient vector interpolated from t inner shares (untrusted witness) is "
                "verified by TLC over Fp129: all t+2 shares lie on it, exact degree t-1, non-constant coefficients non-zero, "
                "pairwise distinct and disjoint between groups; perfect secrecy is checked exhaustively over GF(5), GF(7); "
                "distinct = (valuation, inbox) with a predicted refusal + scanned reports + certified groups")
    out.assumptions = [STAR_ASSUME, "secrecy is decided structurally (which values are visible / derivable), not as a reduction"]
    _star_secrecy(out, "Star_secrecy.cfg")
    _star_secrecy(out, "Star_secrecy_t.cfg")
    _shamir_small(out, ["Shamir_secrecy_q5.cfg", "Shamir_secrecy_q7.cfg", "Shamir_q5_t3.cfg"] +
                  (["Shamir_q7_t3.cfg", "Shamir_q5_t2.cfg"] if thorough else []))
    _recover_family(out, "C02", ["Star_q_faults.cfg", "Star_q_honest.cfg", "Star_t_faults.cfg" if thorough else "Star_t3_faults.cfg"],
                    seed, 6 if thorough else 4)
    _star_big(out, "C02", seed, thorough)
    out.add_vh(run_vh(["secret-scan", "--seed", seed, "--n", 200 if thorough else 40]), only={"C02"})
    _sharded_trace(out, "C02", "Trace_Shamir", "Trace_Shamir.cfg",
                   lambda k, tr: (["cert-record", "--out", tr, "--seed", seed + k, "--groups", 200, "--sweep",
                                   "--mint", [2, 20, 30, 36, 41, 52][k], "--maxt", [19, 29, 35, 40, 51, 64][k]]
                                  if k < (6 if thorough else 4) else
                                  (["cert-record", "--out", tr, "--seed", seed + k, "--groups", 6, "--maxt", 128 if thorough else 64]
                                   if k < (7 if thorough else 5) else
                                   ["cert-record", "--out", tr, "--seed", seed + k, "--small", 120 if thorough else 50, "--maxt", 8])),
                   9 if thorough else 6, "polynomial certificate")
    return out


@check("C06")
def c06(tier, seed):
    out = Outcome("C06", tier, seed, "exploration")
    thorough = tier == "thorough"
    out.rule = ("dealing through Sharks::dealer_rng with clonable random sources (ChaCha and structured streams), the expected "
                "coefficients obtained by running the same source through Fp::random; every share (iterator and random "
                "points) and every recovery (exact, permuted+duplicated, surplus, too few, empty, ragged) is logged and "
                "re-evaluated by TLC with Shamir.tla over Fp129: y = Horner(draws ++ secret, x), iterator points 1,2,3.., "
                "x != 0, refusal rules, result = constant terms; distinct = distinct (dealing, selection) and refusals; "
                "Shamir.tla itself is model-checked exhaustively over GF(5), GF(7), GF(13) against Lagrange interpolation")
    out.assumptions = ["thresholds above the TLC-checked bound (24 quick / 96 thorough) get round-trip and refusal checks only",
                       "Fp::random (third-party ff derive) defines how a random source is turned into field elements"]
    _shamir_small(out, ["Shamir_q5_t1.cfg", "Shamir_q5_t2.cfg", "Shamir_q5_t3.cfg", "Shamir_q7_t1.cfg"] +
                  (["Shamir_q7_t2.cfg", "Shamir_q7_t3.cfg", "Shamir_q13_t2.cfg"] if thorough else []))
    _sharded_trace(out, "C06", "Trace_Shamir", "Trace_Shamir.cfg",
                   lambda k, tr: (["shamir-record", "--out", tr, "--seed", seed + k, "--deals", (41 if thorough else 21),
                                   "--maxt", 40 if thorough else 20, "--sweep", 40 if thorough else 20, "--big", 1]
                                  if k == 0 else
                                  ["shamir-record", "--out", tr, "--seed", seed + k, "--deals", 16 if thorough else 10,
                                   "--maxt", 96 if (thorough and k == 1) else (40 if thorough else 24), "--big", 0]),
                   8 if thorough else 3, "Shamir dealing/recovery log")
    return out


def _expect_spec_violation(out, module, cfg, what):
    """Vacuity control: a deliberately broken configuration of the specification must be refuted by TLC."""
    res = run_tlc(module, cfg, workers=2, timeout=600, tag="neg-" + cfg[:-4])
    if not res.violation:
        raise ToolError(f"{module}/{cfg} was expected to violate {what} but TLC accepted it (vacuous model?)")
    out.extra.setdefault("negative_models_refuted", []).append({"model": f"{module}/{cfg}", "refutes": what})


@check("C03")
def c03(tier, seed):
    out = Outcome("C03", tier, seed, "model_checking")
    thorough = tier == "thorough"
    out.rule = ("TLC evaluates the adversary-knowledge closure (rules: interpolate with >= t points, open C/D with the sharing "
                "key, derive the payload key, open the payload, XOR of two payload ciphertexts under equal key and nonce) over "
                "every observation subset of the client population: no associated data and no payload XOR is derivable below "
                "threshold (NoXorLeak, SubThresholdSecrecy); the constant-nonce configuration is refuted by TLC (negative "
                "model).  On the real code, for sequences of 2-3 sub-threshold reports of one measurement with associated data "
                "of 1 B .. 3 cipher blocks: not in clear, every 16/32-byte window of the report tried as key, and "
                "ct1 xor ct2 != pt1 xor pt2 on every 16-byte window containing a differing byte; distinct = report x check kind")
    out.assumptions = [STAR_ASSUME, "the XOR test has false-alarm probability 2^-128 per window"]
    _star_secrecy(out, "Star_secrecy_t.cfg")
    _star_secrecy(out, "Star_secrecy.cfg")
    _expect_spec_violation(out, "MC_Secrecy", "Secrecy_legacy.cfg", "NoXorLeak with a constant cipher nonce")
    for k in range(8 if thorough else 1):
        out.add_vh(run_vh(["cipher-check", "--seed", seed + k, "--groups", 96 if thorough else 16], timeout=3000), only={"C03"})
    out.add_vh(run_vh(["length-sweep", "--prop", "C03", "--seed", seed, "--max", 520 if thorough else 200], timeout=3000), only={"C03"})
    # "longer sequences": the per-report nonce must not live in a small space
    out.add_vh(run_vh(["nonce-space", "--n", 600000 if thorough else 200000], timeout=3000), only={"C03"})
    return out


@check("C04")
def c04(tier, seed):
    out = Outcome("C04", tier, seed, "model_checking")
    thorough = tier == "thorough"
    out.rule = ("TLC enumerates all 147 triples over strings of length <= 2 on a two-symbol alphabet x 3 thresholds (all "
                "10 731 pairs, including the 132 boundary-shifted pairs with equal m||e) and checks that the framed transcript "
                "is injective while the unframed one is refuted (negative model); every triple is executed under several "
                "byte valuations x threshold maps (one-bit-apart and byte-shifted u32s) with independent clients and "
                "differing associated data; the equality pattern of randomness / tag / key bytes must equal the model's; "
                "share points pairwise distinct; shares of one triple combine; distinct = (valuation, threshold map, triple)")
    out.assumptions = [STAR_ASSUME, "all-pairs distinctness is decided through hash maps over the 147 values per sort"]
    res = run_tlc("MC_Derive", "Derive.cfg", workers=1, timeout=900, tags=("DERIVE", "SHIFTPAIRS"), tag="C04-derive")
    out.add_tlc(res, "MC_Derive/Derive.cfg")
    out.extra["boundary_shifted_pairs_in_model"] = (res.lines.get("SHIFTPAIRS") or [{"n": 0}])[0]["n"]
    _expect_spec_violation(out, "MC_Derive", "Derive_unframed.cfg", "Injective for an unframed transcript")
    if res.ok:
        wd = workdir("C04-lines")
        lp = os.path.join(wd, "derive.ndjson")
        write_ndjson(lp, res.lines.get("DERIVE", []))
        if len(res.lines.get("DERIVE", [])) < 100:
            raise ToolError("MC_Derive emitted too few triples")
        out.add_vh(run_vh(["derive-replay", "--lines", lp, "--seed", seed, "--vals", 10,
                           "--thrmaps", 6 if thorough else 5, "--clients", 16 if thorough else 3], timeout=3000), only={"C04"})
    out.add_vh(run_vh(["length-sweep", "--prop", "C04", "--seed", seed, "--max", 1000 if thorough else 300], timeout=3000), only={"C04"})
    # a generator object reused for another measurement derives what a fresh one derives
    out.add_vh(run_vh(["generator-reuse", "--seed", seed], timeout=3000), only={"C04"})
    out.add_vh(run_vh(["thread-clients", "--seed", seed], timeout=3000), only={"C04"})
    _purity(out, "C04", seed, rounds=4 if tier == "thorough" else 3)
    return out


def _wire_table(out, cfg, tag):
    res = run_tlc("MC_WireFaults", cfg, workers=8, timeout=2400, tags=("WIRE",), tag=tag, heap="6g")
    out.add_tlc(res, "MC_WireFaults/" + cfg)
    if res.ok and not res.lines.get("WIRE"):
        raise ToolError("MC_WireFaults emitted nothing")
    wd = workdir(tag + "-tbl")
    lp = os.path.join(wd, cfg + ".lines.ndjson")
    write_ndjson(lp, res.lines.get("WIRE", []))
    return lp


@check("C08")
def c08(tier, seed):
    out = Outcome("C08", tier, seed, "fault_enumeration")
    thorough = tier == "thorough"
    out.rule = ("(A) TLC enumerates seed encodings of 2/3 shapes x every single fault (every truncation point, each of 12 boundary "
                "values at each of 6 length headers, non-canonical / high-limb elements, threshold extremes, trailing bytes, bit "
                "flips) and, thorough, every pair of faults from different classes, with the verdict of the independent parser "
                "Wire.tla; each string is fed to Message::from_bytes and both Share::from_bytes; (C) honest values of the C01 "
                "generators, all their prefixes, byte/bit faults, trailing bytes, splices and random strings go through the "
                "real decoders and TLC re-parses every one (Trace_Wire): accept/reject and re-encoding must agree; "
                "distinct = distinct (decoder, input) with a fault or a rejection")
    out.assumptions = ["length headers >= 2^31 are one class (Huge) in the TLA+ parser; a panic of a decoder is 'not accepted' "
                       "here and reported under C09"]
    lp = _wire_table(out, "WireFaults_t.cfg" if thorough else "WireFaults_q.cfg", "C08-faults")
    out.add_vh(run_vh(["wire-replay", "--lines", lp, "--prop", "C08"], timeout=3000), only={"C08"})
    _sharded_trace(out, "C08", "Trace_Wire", "Trace_Wire.cfg",
                   lambda k, tr: ["wire-record", "--out", tr, "--seed", seed + k, "--n", 8 if thorough else 3,
                                  "--tier", tier, "--decoders", "sharks,adss,message"],
                   16 if thorough else 2, "decoder call log")
    return out


@check("C09")
def c09(tier, seed):
    out = Outcome("C09", tier, seed, "fault_enumeration")
    thorough = tier == "thorough"
    out.rule = ("every string of the MC_WireFaults enumeration and, from honest encodings, every truncation length and every "
                "length/threshold header set to 18 boundary values (0 .. 2^32-1) is fed under catch_unwind to the decoders "
                "(sharks, adss, sta_rs share, message, public key, proof) and load_bytes; structurally valid degenerate shares "
                "(no y-coordinates, thresholds 0, 1, 2^32-1) to Sharks::recover / adss::recover / share_recover; undecodable "
                "points, missing proofs and corrupted loaded public keys to Server::eval / Client::verify; 10 malformed input "
                "classes to star_wasm::group_shares; the oracle is: no panic, and the function's own failure value; "
                "distinct = distinct (entry point, input class instance)")
    out.assumptions = ["aborts other than panics (e.g. allocation failure) are not observable by catch_unwind; the harness builds "
                       "the crates with overflow checks and debug assertions on"]
    lp = _wire_table(out, "WireFaults_t.cfg" if thorough else "WireFaults_q.cfg", "C09-faults")
    out.add_vh(run_vh(["wire-replay", "--lines", lp, "--prop", "C09"], timeout=3000), only={"C09"})
    for k in range(24 if thorough else 1):
        out.add_vh(run_vh(["crash-sweep", "--seed", seed + k, "--tier", tier], timeout=3000), only={"C09"})
    return out


def _oprf_cases(out, tag):
    res = run_tlc("MC_Oprf", "Oprf.cfg", workers=1, timeout=600, tags=("DLEQ",), tag=tag)
    out.add_tlc(res, "MC_Oprf/Oprf.cfg")
    if res.ok and len(res.lines.get("DLEQ", [])) < 20:
        raise ToolError("MC_Oprf emitted too few cases")
    wd = workdir(tag + "-tbl")
    lp = os.path.join(wd, "dleq.ndjson")
    write_ndjson(lp, res.lines.get("DLEQ", []))
    return lp


@check("C12")
def c12(tier, seed):
    out = Outcome("C12", tier, seed, "model_checking")
    thorough = tier == "thorough"
    out.rule = ("TLC checks Oblivious / Separated / BlindFresh of the symbolic group algebra (blinding scalars cancel) over 2 "
                "servers x 3 tags x 3 inputs x 3 blindings, and HistoryIndependent / RequestsUnlinkable over every history of up to "
                "3 requests (server x input x tag x plain/verifiable); on the real code, for 3 independently keyed servers x their tags x "
                "inputs (empty, 1 B, block-sized, 5 kB, random) x R OS blindings, plain and verifiable: unblind(eval(blind(x))) = "
                "eval(H(x)), finalised outputs equal within and distinct across (server, tag, input), blinded requests pairwise "
                "distinct and != H(x); distinct = (server, tag, input, request)")
    out.assumptions = [IDEAL, "H(x) is obtained as unblind(blind(x)) through the public API"]
    _oprf_cases(out, "C12-mc")
    rh = run_tlc("MC_Oprf", "Oprf_hist.cfg", workers=6, timeout=900, tag="C12-hist")
    out.add_tlc(rh, "MC_Oprf/Oprf_hist.cfg (request histories)")
    out.add_vh(run_vh(["oprf-check", "--seed", seed, "--blindings", 128 if thorough else 8,
                       "--inputs", 160 if thorough else 45], timeout=3000), only={"C12"})
    _purity(out, "C12", seed, rounds=4 if tier == "thorough" else 3)
    return out


@check("C13")
def c13(tier, seed):
    out = Outcome("C13", tier, seed, "fault_enumeration")
    thorough = tier == "thorough"
    out.rule = ("TLC enumerates every applicable (component in {pk, input, output, tag, c, s}) x (class in {same, restored, other "
                "honest value, neighbour, identity/zero, other server, other tag}) substitution into an honest verifiable "
                "evaluation and predicts accept iff nothing differs (ProofSound, ProofComplete); each case is realised in several "
                "concrete variants on the bincode / 32-byte forms (+1, bit flips, zero, values from other requests, swapped key "
                "entries) for several base requests and judged by Client::verify; commitments s*G + c*PK recomputed with "
                "curve25519-dalek are pairwise distinct over N proofs incl. repeated identical requests; "
                "distinct = (base request, component, class, variant)")
    out.assumptions = ["DLEQ soundness is the ideal-model statement 'accepts exactly the issued statement'", IDEAL]
    lp = _oprf_cases(out, "C13-mc")
    out.add_vh(run_vh(["dleq-replay", "--lines", lp, "--seed", seed, "--bases", 60 if thorough else 3], timeout=3000), only={"C13"})
    out.add_vh(run_vh(["nonce-check", "--n", 16384 if thorough else 64], timeout=3000), only={"C13"})
    out.add_vh(run_vh(["proof-complete", "--seed", seed, "--requests", 60 if thorough else 3], timeout=3000), only={"C13"})
    rf = run_vh(["dleq-forge", "--seed", seed, "--n", 300 if thorough else 6], timeout=3000)
    out.add_vh(rf, only={"C13"})
    out.extra["forgery_positive_controls_ok"] = rf.get("counters", {}).get("positive_controls_ok", 0)
    _purity(out, "C13", seed, rounds=4 if tier == "thorough" else 3)
    return out


@check("C15")
def c15(tier, seed):
    out = Outcome("C15", tier, seed, "fault_enumeration")
    thorough = tier == "thorough"
    out.rule = ("public keys over tag-set sizes 0..256 and proofs/points/evaluations of real requests are serialised and restored "
                "(bincode / serde_json) and must equal the originals and verify interchangeably (the 'restored' cases of the "
                "MC_Oprf enumeration); every prefix, byte fault, trailing-byte extension and splice of the bincode forms, "
                "lengths cap-1 / cap / cap+1 for both caps, inflated and huge map counts, repeated tags and non-canonical "
                "scalars are decoded by the real loaders and re-parsed by TLC (Wire.tla DecPk / DecProof, Trace_Wire); "
                "malformed JSON must be an error; distinct = distinct (decoder, input)")
    out.assumptions = ["bincode ignores trailing bytes and keeps the last of repeated map keys (modelled); compressed points are "
                       "not validated at load time (by design of curve25519-dalek)"]
    lp = _oprf_cases(out, "C15-mc")
    out.add_vh(run_vh(["dleq-replay", "--lines", lp, "--seed", seed, "--bases", 40 if thorough else 3, "--prop", "C15"]), only={"C15"})
    for k in range(12 if thorough else 1):
        out.add_vh(run_vh(["serde-check", "--seed", seed + k]), only={"C15"})
    _sharded_trace(out, "C15", "Trace_Wire", "Trace_Wire.cfg",
                   lambda k, tr: ["wire-record", "--out", tr, "--seed", seed + k, "--n", 4 if thorough else 2, "--tier", tier,
                                  "--decoders", "pk,proof"],
                   12 if thorough else 1, "loader call log")
    return out


@check("C18")
def c18(tier, seed):
    out = Outcome("C18", tier, seed, "model_checking")
    thorough = tier == "thorough"
    out.rule = ("Aggregator.tla (collect in any arrival order -> filter -> worker pool taking any pending bucket at any time -> "
                "join) is model-checked for every interleaving of 2-3 workers over 3-4 buckets with sizes around the threshold: "
                "OutputCorrect, NeverTooMuch, NoLostBucket and termination under weak fairness; each model configuration is "
                "scaled (x3 and x45 quick, x100 thorough = up to 400 groups / > 256 reports per call) and executed on the real AggregationServer under rayon "
                "pools of 1,2,3,4,8,16 threads x 3 input permutations; outputs compared as a map measurement -> multiset of "
                "associated data (absent == empty); distinct = (configuration, pool size, permutation)")
    out.assumptions = ["real rayon schedules are sampled (pool sizes x repetitions), not enumerated; the schedule quantifier is "
                       "exhaustive only in the model", "the reference server reports an empty associated datum as absent"]
    lines = []
    for c in (["Agg_1.cfg", "Agg_2.cfg", "Agg_3.cfg", "Agg_5.cfg", "Agg_7.cfg"] + (["Agg_4.cfg", "Agg_6.cfg"] if thorough else [])):
        r = run_tlc("MC_Aggregator", c, workers=6, timeout=900, tags=("AGG",), tag="C18-" + c[:-4])
        out.add_tlc(r, "MC_Aggregator/" + c)
        lines += r.lines.get("AGG", [])[:1]
    if not lines:
        raise ToolError("no aggregator configurations emitted")
    wd = workdir("C18-lines")
    lp = os.path.join(wd, "agg.ndjson")
    write_ndjson(lp, lines)
    # small scale (a handful of reports) and large scale (hundreds of groups, > 256 reports per call)
    out.add_vh(run_vh(["agg-replay", "--lines", lp, "--seed", seed, "--scale", 3, "--perms", 3], timeout=3000), only={"C18"})
    out.add_vh(run_vh(["agg-replay", "--lines", lp, "--seed", seed + 1, "--scale", 250 if thorough else 45,
                       "--perms", 4 if thorough else 3], timeout=3000), only={"C18"})
    # populations made of groups exactly at the threshold (no model line needed: Expected = all of them)
    out.add_vh(run_vh(["agg-replay", "--flood", 200 if thorough else 80, "--seed", seed + 4], timeout=3000), only={"C18"})
    # pool sizes that do not divide a power of two (a partition of the tag space by worker goes wrong there)
    out.add_vh(run_vh(["agg-replay", "--lines", lp, "--seed", seed + 3, "--scale", 100 if thorough else 60, "--perms", 1,
                       "--pools", "3,5,6,7,9,11,13,15" if thorough else "5,7,13"], timeout=3000), only={"C18"})
    # thresholds 1..8 with every below-threshold size next to sizes t, t+1, 2t (expectation from Aggregator!Expected)
    r = run_tlc("MC_AggSweep", "AggSweep.cfg", workers=1, timeout=300, tags=("AGG",), tag="C18-sweep")
    out.add_tlc(r, "MC_AggSweep/AggSweep.cfg")
    sw = r.lines.get("AGG", [])
    if len(sw) < 8:
        raise ToolError("MC_AggSweep emitted too few populations")
    lp2 = os.path.join(wd, "aggsweep.ndjson")
    write_ndjson(lp2, sw)
    out.add_vh(run_vh(["agg-replay", "--lines", lp2, "--seed", seed + 2, "--scale", 12 if thorough else 5, "--perms", 2,
                       "--pools", "1,2,3,4,8,16" if thorough else "1,3,16"], timeout=3000), only={"C18"})
    _expect_spec_violation(out, "Neg_Aggregator", "Neg_Aggregator.cfg", "OutputCorrect for a strict (>) threshold filter")
    return out
