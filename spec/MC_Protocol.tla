---------------------------- MODULE MC_Protocol ----------------------------
EXTENDS Protocol, Json
Tags3 == <<7, 8, 200>>
Meas4 == <<1, 1, 2, 3>>         \* clients 1 and 2 share a measurement
DictA == {1, 2}                \* the adversary can guess measurements 1 and 2, not 3
View == <<server, cur, wire, stolen>>
SetToSeq(S) == LET RECURSIVE F(_) F(X) == IF X = {} THEN <<>> ELSE LET m == CHOOSE a \in X : TRUE IN <<m>> \o F(X \ {m}) IN F(S)
Line == [hist |-> hist,
         learned |-> [i \in 1..Len(EpochTags) |-> SetToSeq(Learned(EpochTags[i]))],
         guessed |-> SetToSeq(Guessed),
         agg |-> [i \in 1..Len(EpochTags) |-> SetToSeq({g \in {Meas[c] : c \in 1..NClients} : Count(g, EpochTags[i]) >= T})],
         answers |-> IF stolen = <<>> THEN <<>> ELSE SetToSeq({e \in Epochs : P!Answers(stolen, e)}),
         tags |-> EpochTags, meas |-> Meas, dict |-> SetToSeq(Dict), t |-> T, stolen |-> IF stolen = <<>> THEN 0 ELSE 1]
MaxHist == 7
Bounded == Len(hist) <= MaxHist
EmitInv == (stolen # <<>> /\ Len(hist) <= MaxHist) => PrintT(<<"PROTO", ToJson(Line)>>)
\* negative model: with locally derived randomness a guessable measurement is learned from a
\* single report, no key needed — this "invariant" must be refuted
LocalIsSafe == \A e \in Epochs : \A g \in Dict : Count(g, e) < T => <<g, e>> \notin Guessed
=============================================================================
