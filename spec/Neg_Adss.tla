------------------------------ MODULE Neg_Adss ------------------------------
(* NEGATIVE model (must be refuted): the authentication tag does not cover the threshold  *)
(* (the access structure is left out of the MAC transcript on both sides).  Raising the    *)
(* threshold recorded in the first share is then accepted whenever enough genuine shares   *)
(* follow — `recover` returns a sharing that is not the one that was shared.               *)
EXTENDS MC_Star

MacNoThr(s) == <<"Mac", <<SidT(s), SidM(s), SidR(s)>>>>
NegShareOf(s, x) == [ShareOf(s, x) EXCEPT !.J = MacNoThr(s)]
NegAdssRecover(shares) ==
  IF shares = <<>> THEN [ok |-> FALSE]
  ELSE LET f == shares[1]
           r == SharksRecover(f.thr, shares)
       IN IF ~r.ok \/ r.val = <<"Empty">> THEN [ok |-> FALSE]
          ELSE LET kk == r.val
                   mm == Dec(kk, 1, f.C)
                   rr == Dec(kk, 2, f.D)
                   c == Sid(DefaultT, f.thr, mm, rr)
               IN IF MacNoThr(c) = f.J THEN [ok |-> TRUE, sid |-> c] ELSE [ok |-> FALSE]

NegShares(ib) == [i \in 1..Len(ib) |->
   ApplyFault(NegShareOf(SidOf(Clients[ib[i].c]), ib[i].c), ib[i].c, ib[i].f)]
\* the result is the sharing of the first share (threshold included) or an error
NegAuthenticated ==
  LET o == NegAdssRecover(NegShares(inbox))
  IN o.ok => o.sid = SidOf(Clients[inbox[1].c])
=============================================================================
