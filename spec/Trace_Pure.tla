----------------------------- MODULE Trace_Pure -----------------------------
(***************************************************************************)
(* History independence of the deterministic API (binding B): the log of   *)
(* `vh purity-record` — a pool of calls, each executed several times in    *)
(* different orders on three threads — must be explained by a MEMO TABLE:  *)
(* a call is identified by its arguments (`id`), its first result is       *)
(* remembered, every later execution returns the remembered result.  Where *)
(* the properties demand a particular class of result (an honest proof     *)
(* verifies, a proof presented with any one component replaced does not;   *)
(* a collection below threshold or with an altered first share is refused) *)
(* the class is checked on EVERY execution, i.e. also after the calls that *)
(* could have primed a cache.  No call may panic.                          *)
(***************************************************************************)
EXTENDS Naturals, Sequences, FiniteSets, TLC, Json, IOUtils

Recs == ndJsonDeserialize(IOEnv.TRACE)

VARIABLES l, memo        \* memo: call id -> result digest
tvars == <<l, memo>>

TraceInit == l = 1 /\ memo = [x \in {} |-> ""]

TCall ==
  /\ l <= Len(Recs) /\ Recs[l].ev = "Call" /\ l' = l + 1
  /\ LET r == Recs[l]
     IN /\ r.cls \notin {"panic", "WRONG"}
        /\ r.want # "" => r.cls = r.want
        /\ IF r.id \in DOMAIN memo
             THEN memo[r.id] = r.res /\ UNCHANGED memo
             ELSE memo' = [x \in DOMAIN memo \cup {r.id} |-> IF x = r.id THEN r.res ELSE memo[x]]

TraceNext == TCall
TraceSpec == TraceInit /\ [][TraceNext]_tvars

Accepted ==
  LET d == TLCGet("stats").diameter
  IN IF d = Len(Recs) + 1 THEN TRUE
     ELSE /\ PrintT(<<"REJECTED", ToJson([at |-> d, ev |-> Recs[d]])>>)
          /\ FALSE
=============================================================================
