----------------------------- MODULE MC_Secrecy -----------------------------
(* The eavesdropper's view as a state machine (C02, C03): reports are observed one  *)
(* at a time, in any order; in every reachable observation set the knowledge        *)
(* closure must contain no secret (and no payload XOR) of a client whose sharing is *)
(* still below its threshold.                                                      *)
EXTENDS MC_Star

VARIABLE obs          \* set of client indices whose reports have been observed
svars == <<obs, inbox>>

SInit == obs = {} /\ inbox = <<>>
Observe(c) == c \notin obs /\ obs' = obs \cup {c} /\ UNCHANGED inbox
SNext == \E c \in 1..NC : Observe(c)
SSpec == SInit /\ [][SNext]_svars

K(o) == Know({Rep(c) : c \in o}, Epochs)

SecrecyHere ==
  LET k == K(obs)
  IN \A c \in obs : (BelowThreshold(obs, c) /\ Clients[c].src = "local" /\
                     ~\E d \in obs : Clients[d].m = Clients[c].m /\ ~BelowThreshold(obs, d))
                       => SecretsOf(Clients[c]) \cap k = {}

NoXorLeakHere ==
  LET k == K(obs)
  IN \A c, d \in obs : (BelowThreshold(obs, c) /\ BelowThreshold(obs, d)) =>
        <<"Xor", Rep(c).ct[4], Rep(d).ct[4]>> \notin k

\* once a sharing reaches its threshold its secrets ARE derivable (the closure is not vacuous)
RevealedAtThreshold ==
  LET k == K(obs)
  IN \A c \in obs : (~BelowThreshold(obs, c) /\ SidThr(SidOf(Clients[c])) >= 1) => Clients[c].m \in k
=============================================================================
