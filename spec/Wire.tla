-------------------------------- MODULE Wire --------------------------------
(***************************************************************************)
(* The wire layouts of brave/sta-rs as pure functions on byte sequences —   *)
(* an independent parser (C08, C09, C15):                                  *)
(*   sharks share   x(24) | y_1(24) .. y_k(24)      (trailing < 24 dropped) *)
(*   adss share     thr(4 LE) | len,S | len,C | len,D | J(64)               *)
(*   STAR message   len,ciphertext | len,share | len,tag   (trailing ignored)*)
(*   public key     base(32) | n(u64 LE) | n x (tag(1) | point(32))  bincode *)
(*   proof          c(32) | s(32), canonical scalars                 bincode *)
(* Every decoder returns [ok |-> FALSE] or [ok |-> TRUE, canon |-> bytes],  *)
(* canon being the re-encoding of what was accepted.                        *)
(* The parsers are the CONTRACT of C08 / C15, not a transcript of the code: *)
(* they accept everything a conforming decoder may accept (trailing bytes   *)
(* that the layout allows to ignore, repeated map keys) and say what the    *)
(* canonical form then is.  A real decoder is judged by                     *)
(*   accepts  =>  the parser accepts and the re-encoding is the canon,      *)
(*   an honest encoding (canon = input, produced by the encoder) is         *)
(*   accepted and round-trips;                                              *)
(* refusing a non-honest input is always allowed.                           *)
(* TLC integers are 32-bit: a length header with the top bit set is Huge    *)
(* (larger than any input).                                                 *)
(***************************************************************************)
EXTENDS Fp129, FiniteSets

Rej == [ok |-> FALSE]
Acc(b) == [ok |-> TRUE, canon |-> b]

Huge == 2147483647
LE32(b) == IF b[4] >= 128 THEN Huge ELSE b[1] + 256 * b[2] + 65536 * b[3] + 16777216 * b[4]
EncLE32(n) == <<n % 256, (n \div 256) % 256, (n \div 65536) % 256, (n \div 16777216) % 256>>
Drop(b, n) == SubSeq(b, n + 1, Len(b))
Take(b, n) == SubSeq(b, 1, n)

\* adss::load_bytes: None unless the 4-byte header and the announced bytes are all there
LoadBytes(b) ==
  IF Len(b) < 4 THEN [ok |-> FALSE]
  ELSE LET n == LE32(b)
       IN IF n = Huge \/ Len(b) - 4 < n THEN [ok |-> FALSE]
          ELSE [ok |-> TRUE, data |-> SubSeq(b, 5, 4 + n), rest |-> Drop(b, 4 + n)]
StoreBytes(d) == EncLE32(Len(d)) \o d

\* a 24-byte little-endian canonical field element
ElemOK(b) == FromRepr(b)[1] = "some"

\* star_sharks::Share::try_from(&[u8])
DecSharks(b) ==
  IF Len(b) < 24 THEN Rej
  ELSE LET k == (Len(b) - 24) \div 24
       IN IF \A i \in 0..k : ElemOK(SubSeq(b, 24 * i + 1, 24 * i + 24))
            THEN Acc(Take(b, 24 * (k + 1)))
            ELSE Rej

\* adss::Share::from_bytes
DecAdss(b) ==
  IF Len(b) < 4 THEN Rej
  ELSE LET thr == Take(b, 4)
           s == LoadBytes(Drop(b, 4))
       IN IF ~s.ok THEN Rej
          ELSE LET c == LoadBytes(s.rest)
               IN IF ~c.ok THEN Rej
                  ELSE LET d == LoadBytes(c.rest)
                       IN IF ~d.ok THEN Rej
                          ELSE IF Len(d.rest) < 64 THEN Rej            \* (bytes after the tag: ignorable)
                          ELSE LET sh == DecSharks(s.data)
                               IN IF ~sh.ok THEN Rej
                                  ELSE Acc(thr \o StoreBytes(sh.canon) \o StoreBytes(c.data)
                                           \o StoreBytes(d.data) \o Take(d.rest, 64))

\* sta_rs::Message::from_bytes
DecMessage(b) ==
  LET ct == LoadBytes(b)
  IN IF ~ct.ok THEN Rej
     ELSE LET sb == LoadBytes(ct.rest)
          IN IF ~sb.ok THEN Rej
             ELSE LET sh == DecAdss(sb.data)
                  IN IF ~sh.ok THEN Rej
                     ELSE LET tg == LoadBytes(sb.rest)
                          IN IF ~tg.ok THEN Rej
                             ELSE Acc(StoreBytes(ct.data) \o StoreBytes(sh.canon) \o StoreBytes(tg.data))

---------------------------------------------------------------------------
(* bincode forms of the PPOPRF public key and proof (C15)                  *)
MaxPk == 16384
MaxProof == 64

\* u64 little-endian length; Huge unless it fits 31 bits
LE64(b) == IF \E i \in 5..8 : b[i] # 0 THEN Huge ELSE LE32(b)

\* the group order l = 2^252 + 27742317777372353535851937790883648493, little-endian bytes
EllBytes == <<237, 211, 245, 92, 26, 99, 18, 88, 214, 156, 247, 162, 222, 249, 222, 20,
              0, 0, 0, 0, 0, 0, 0, 0, 0, 0, 0, 0, 0, 0, 0, 16>>
ScalarOK(b) == Len(b) = 32 /\ Less(Norm(b), Norm(EllBytes))

\* ServerPublicKey::load_from_bincode: size cap, then base point, map length, entries.
\* Trailing bytes are ignored by bincode::deserialize; a repeated tag keeps the last entry.
DecPk(b) ==
  IF Len(b) > MaxPk THEN Rej
  ELSE IF Len(b) < 40 THEN Rej
  ELSE LET n == LE64(SubSeq(b, 33, 40))
       IN IF n = Huge \/ (Len(b) - 40) \div 33 < n THEN Rej
          ELSE LET entry(i) == SubSeq(b, 41 + 33 * (i - 1), 40 + 33 * i)
                   tags == {entry(i)[1] : i \in 1..n}
                   lastOf(t) == CHOOSE i \in 1..n : entry(i)[1] = t /\ \A j \in 1..n : entry(j)[1] = t => j <= i
                   RECURSIVE Emit(_)
                   Emit(S) == IF S = {} THEN <<>>
                              ELSE LET t == CHOOSE x \in S : \A y \in S : x <= y
                                   IN entry(lastOf(t)) \o Emit(S \ {t})
               IN Acc(Take(b, 32) \o EncLE32(Cardinality(tags)) \o <<0, 0, 0, 0>> \o Emit(tags))

\* ProofDLEQ::load_from_bincode: size cap, two canonical scalars
DecProof(b) ==
  IF Len(b) > MaxProof THEN Rej
  ELSE IF Len(b) < 64 THEN Rej
  ELSE IF ScalarOK(SubSeq(b, 1, 32)) /\ ScalarOK(SubSeq(b, 33, 64)) THEN Acc(Take(b, 64)) ELSE Rej

Decode(which, b) ==
  CASE which = "sharks"  -> DecSharks(b)
    [] which = "adss"    -> DecAdss(b)
    [] which = "message" -> DecMessage(b)
    [] which = "pk"      -> DecPk(b)
    [] which = "proof"   -> DecProof(b)
=============================================================================
