---------------------------- MODULE MC_GGM_Abs ----------------------------
(* Glue between the three levels of the GGM argument, checked by TLC:               *)
(*   (1) the tree lemma for the 8-bit tree: for every input x and every level k the  *)
(*       siblings of the path below Anc(x, k) partition Leaves(Anc(x, k)) \ {x};     *)
(*       the two initial nodes partition the inputs; Leaves is injective on nodes;   *)
(*   (2) refinement: every GGM_Ind step is a GGM_Abs step (PunctureWith, explicit    *)
(*       witness) under  retained <- {Leaves(n) : n \in retained};                   *)
(*   (3) GGM_Ind's own inductive invariant on every reachable state.                 *)
(* GGM_Abs's invariant is proved by TLAPS for every domain (GGM_Abs.tla).            *)
EXTENDS GGM_Ind, TLC

CONSTANT MaxP      \* exploration bound: number of punctured inputs
Small == Cardinality(punctured) <= MaxP

\* the inputs below node <<k, v>>: v + 2^k * i
Leaves(n) == {n[2] + P2(n[1]) * i : i \in 0..(P2(Depth - n[1]) - 1)}
LeavesDef == \A n \in Nodes : Leaves(n) = {x \in Inputs : Anc(x, n[1]) = n}
AbsRetained == {Leaves(n) : n \in retained}
A == INSTANCE GGM_Abs WITH Inputs <- Inputs, retained <- AbsRetained, punctured <- punctured

CoPath(x, k) == {Sib(x, j) : j \in {i \in Levels : i > k}}

TreeLemma ==
  /\ \A x \in Inputs : \A k \in 0..Depth :
        LET Q == {Leaves(m) : m \in CoPath(x, k)}
        IN /\ A!IsPartition(Q, Leaves(Anc(x, k)) \ {x})
           /\ Cardinality(Q) = Cardinality(CoPath(x, k))      \* distinct siblings, distinct leaf sets
           /\ \A m \in CoPath(x, k) : m \in Nodes
  /\ A!IsPartition({Leaves(Nd(1, 0)), Leaves(Nd(1, 1))}, Inputs)
  /\ \A n, m \in Nodes : n # m => Leaves(n) # Leaves(m)
  /\ \A n \in Nodes : Leaves(n) # {}
  /\ LeavesDef
ASSUME TreeLemma

\* (2) step refinement with the explicit witness
\* (x and the level of the covering node are read off the step itself)
RefStep ==
  /\ Cardinality(punctured' \ punctured) = 1
  /\ Cardinality(retained \ retained') = 1
  /\ LET x == CHOOSE y \in punctured' \ punctured : TRUE
         n == CHOOSE m \in retained \ retained' : TRUE
     IN /\ n = Anc(x, n[1])
        /\ A!PunctureWith(x, Leaves(n), {Leaves(m) : m \in CoPath(x, n[1])})
Refines == [][RefStep]_<<retained, punctured>>
InitRefines == A!Init

Spec == Init /\ [][Next]_<<retained, punctured>>
Inv == IndInv /\ A!Inv /\ ForwardSecure /\ Covered
=============================================================================
