--------------------------- MODULE Trace_PPOPRF ---------------------------
(* Trace validation (binding B) for PPOPRF.tla: a log of calls on real               *)
(* ppoprf::Server instances (evaluate / puncture / clone / export+import / new) must *)
(* be a behaviour of the specification.  Output byte strings are interned by the     *)
(* recorder (vid = index of first occurrence), so the spec can require that an       *)
(* answer is a function of exactly (key, tag, point) and injective in it.            *)
EXTENDS PPOPRF, TLC, Json, IOUtils

TagsU == {0, 1, 2, 127, 128, 255}
Recs == ndJsonDeserialize(IOEnv.TRACE)

VARIABLES l,      \* next event
          vals,   \* set of <<key, tag, point, vid>> observed so far
          pks     \* set of <<key, pid>> observed so far
tvars == <<srv, steps, l, vals, pks>>

IsEv(name) == l <= Len(Recs) /\ Recs[l].ev = name /\ l' = l + 1
SeqSet(s) == {s[i] : i \in 1..Len(s)}

TraceInit == srv = <<>> /\ steps = 0 /\ l = 1 /\ vals = {} /\ pks = {}

TReset == IsEv("Reset") /\ srv' = <<>> /\ steps' = 0 /\ UNCHANGED <<vals, pks>>

TNew == /\ IsEv("New")
        /\ srv' = Append(srv, NewServer(Recs[l].k, SeqSet(Recs[l].reg)))
        /\ steps' = steps + 1 /\ UNCHANGED <<vals, pks>>

TPuncture ==
  /\ IsEv("Puncture")
  /\ LET r == Recs[l] IN
       /\ r.i \in 1..Len(srv)
       \* C14 is about answers: puncturing a tag that answers must succeed; the result for an
       \* unregistered or already punctured tag is not pinned (the reference refuses the latter)
       /\ Answers(srv[r.i], r.t) => r.ok = 1
       /\ srv' = PunctureSt(srv, r.i, r.t)
  /\ steps' = steps + 1 /\ UNCHANGED <<vals, pks>>

TClone == /\ IsEv("Clone") /\ Recs[l].i \in 1..Len(srv)
          /\ srv' = CloneSt(srv, Recs[l].i)
          /\ steps' = steps + 1 /\ UNCHANGED <<vals, pks>>

TExpImp == /\ IsEv("ExpImp") /\ Recs[l].i \in 1..Len(srv)
           /\ srv' = ExpImpSt(srv, Recs[l].i)
           /\ steps' = steps + 1 /\ UNCHANGED <<vals, pks>>

TSync == /\ IsEv("Sync") /\ Recs[l].i \in 1..Len(srv) /\ Recs[l].j \in 1..Len(srv) /\ Recs[l].i # Recs[l].j
         /\ srv' = SyncSt(srv, Recs[l].i, Recs[l].j)
         /\ steps' = steps + 1 /\ UNCHANGED <<vals, pks>>

TPk == /\ IsEv("Pk")
       /\ LET r == Recs[l]
              k == srv[r.i].key
          IN /\ \A e \in pks : (e[1] = k) = (e[2] = r.pid)      \* function of the key, injective
             /\ pks' = pks \cup {<<k, r.pid>>}
       /\ UNCHANGED <<srv, steps, vals>>

TEval ==
  /\ IsEv("Eval")
  /\ LET r == Recs[l]
         s == srv[r.i]
     IN /\ (r.ok = 1) = Answers(s, r.t)
        /\ IF r.ok = 1
             THEN /\ \A e \in vals : (<<e[1], e[2], e[3]>> = <<s.key, r.t, r.pt>>) = (e[4] = r.vid)
                  /\ vals' = vals \cup {<<s.key, r.t, r.pt, r.vid>>}
             ELSE vals' = vals
  /\ UNCHANGED <<srv, steps, pks>>

TraceNext == TReset \/ TNew \/ TPuncture \/ TClone \/ TExpImp \/ TSync \/ TPk \/ TEval
TraceSpec == TraceInit /\ [][TraceNext]_tvars

\* invariants of the specification evaluated on every state of the trace
TraceInv ==
  /\ \A i \in 1..Len(srv) : \A md \in Tags :
        Answers(srv[i], md) <=> (md \in srv[i].pk.mds /\ md \notin PunctOf(srv[i]))
  /\ GGMOk

Accepted ==
  LET d == TLCGet("stats").diameter
  IN IF d = Len(Recs) + 1 THEN TRUE
     ELSE /\ PrintT(<<"REJECTED", ToJson([at |-> d, ev |-> Recs[d]])>>)
          /\ FALSE
=============================================================================
