------------------------------- MODULE GGM -------------------------------
(***************************************************************************)
(* The puncturable GGM key of ppoprf/src/ggm.rs, action per public call.    *)
(*                                                                         *)
(* Inputs are Depth-bit numbers; bit i (1-based here) of input x is         *)
(* (x \div 2^(i-1)) % 2, i.e. the tree branches on the LEAST significant    *)
(* bit first (bitvec Lsb0 order in the code).  A tree node is its path, a   *)
(* sequence over {0,1} of length 1..Depth.                                  *)
(*                                                                         *)
(* Seeds are symbolic: the seed of the node with path p on a fresh key is   *)
(* the term p itself (the two children of the root carry independent        *)
(* seeds <<0>> and <<1>>; a child seed is PRG_bit(parent seed), written     *)
(* parent \o <<bit>>).  With an ideal PRG two seeds are equal iff the terms *)
(* are equal, and a seed can be computed from another iff the latter's      *)
(* term is a prefix of the former's.                                        *)
(***************************************************************************)
EXTENDS Naturals, Sequences, FiniteSets

CONSTANTS Depth,      \* input length in bits (8 in the code: inp_len = 1 byte)
          Dom         \* inputs the environment may puncture / evaluate

ASSUME Depth \in Nat \ {0}
N == 2^Depth
Inputs == 0 .. (N - 1)
ASSUME Dom \subseteq Inputs

VARIABLES prefixes,   \* sequence of [bits |-> path, seed |-> term]  (key.prefixes)
          punctured   \* sequence of paths (key.punctured), in puncture order

vars == <<prefixes, punctured>>

---------------------------------------------------------------------------
Bit(x, i) == (x \div (2^(i-1))) % 2
BitsOf(x) == [i \in 1..Depth |-> Bit(x, i)]

\* numeric value of a path (bit 1 = least significant)
RECURSIVE Val(_)
Val(p) == IF p = <<>> THEN 0 ELSE p[1] + 2 * Val(Tail(p))

\* A node is identified by the pair <<length, value>>.
NodeIdsOf(pf) == {<<Len(pf[i].bits), Val(pf[i].bits)>> : i \in 1..Len(pf)}

IsPrefixOf(p, q) == Len(p) <= Len(q) /\ \A i \in 1..Len(p) : p[i] = q[i]
\* node p covers input x  (equivalent to IsPrefixOf(p, BitsOf(x)), arithmetic form)
Covers(p, x) == x % (2^Len(p)) = Val(p)
Covered(p) == {x \in Inputs : Covers(p, x)}

SeqToSet(s) == {s[i] : i \in 1..Len(s)}
PuncturedSet == {Val(punctured[i]) : i \in 1..Len(punctured)}

\* find_prefix: first entry, in list order, whose bits are a prefix of bv; 0 if none
FindPrefix(pf, bv) ==
  IF \E i \in 1..Len(pf) : IsPrefixOf(pf[i].bits, bv)
    THEN CHOOSE i \in 1..Len(pf) :
           /\ IsPrefixOf(pf[i].bits, bv)
           /\ \A j \in 1..(i-1) : ~IsPrefixOf(pf[j].bits, bv)
    ELSE 0

\* bit_eval(bits, seed): descend from seed along bits
BitEval(bits, seed) == seed \o bits

\* GGM::eval : "None" or the value term
EvalOf(pf, x) ==
  LET bv == BitsOf(x)
      i  == FindPrefix(pf, bv)
  IN IF i = 0 THEN <<>>     \* NoPrefixFound
     ELSE BitEval(SubSeq(bv, Len(pf[i].bits) + 1, Depth), pf[i].seed)

Eval(x) == EvalOf(prefixes, x)

(***************************************************************************)
(* The co-path loop of GGM::puncture.  With covering prefix of length L     *)
(* and input bits bv (length Depth), the code iterates i = Depth-1 .. 0     *)
(* (0-based), each time taking the current iter_bv (= first i+1 bits of bv) *)
(* flipping its last bit, and deriving the seed from the covering seed      *)
(* along the bits after position L; it stops once the remaining prefix has  *)
(* length L.  In 1-based terms: for k = Depth, Depth-1, ..., L+1 emit the   *)
(* node SubSeq(bv,1,k-1) \o <<1 - bv[k]>>.                                  *)
(***************************************************************************)
Sibling(bv, k) == SubSeq(bv, 1, k-1) \o <<1 - bv[k]>>

RECURSIVE CoPath(_, _, _, _)
CoPath(bv, k, L, cov) ==
  IF k <= L THEN <<>>
  ELSE LET node == Sibling(bv, k)
           seed == BitEval(SubSeq(node, L + 1, Len(node)), cov.seed)
       IN <<[bits |-> node, seed |-> seed]>> \o CoPath(bv, k - 1, L, cov)

RemoveAt(s, i) == SubSeq(s, 1, i-1) \o SubSeq(s, i+1, Len(s))

\* result of puncture(x) on key state (pf, pu):  [ok, pf, pu]
PunctureOf(pf, pu, x) ==
  LET bv == BitsOf(x)
      i  == FindPrefix(pf, bv)
  IN IF i = 0 THEN [ok |-> FALSE, pf |-> pf, pu |-> pu]          \* NoPrefixFound
     ELSE LET cov  == pf[i]
              L    == Len(cov.bits)
              news == IF L # Depth THEN CoPath(bv, Depth, L, cov) ELSE <<>>
          IN IF \E j \in 1..Len(pu) : pu[j] = cov.bits
               THEN [ok |-> FALSE, pf |-> pf, pu |-> pu]           \* AlreadyPunctured
               ELSE [ok |-> TRUE,
                     pf |-> RemoveAt(pf, i) \o news,
                     pu |-> Append(pu, bv)]

---------------------------------------------------------------------------
Init == /\ prefixes = << [bits |-> <<0>>, seed |-> <<0>>],
                         [bits |-> <<1>>, seed |-> <<1>>] >>
        /\ punctured = <<>>

Puncture(x) ==
  LET r == PunctureOf(prefixes, punctured, x)
  IN /\ prefixes'  = r.pf
     /\ punctured' = r.pu

\* wrong-length input: refused, key unchanged (BadInputLength)
BadLen == UNCHANGED vars

Next == (\E x \in Dom : Puncture(x)) \/ BadLen

Spec == Init /\ [][Next]_vars

---------------------------------------------------------------------------
(* Invariants                                                              *)

TypeOK ==
  /\ \A i \in 1..Len(prefixes) :
        /\ Len(prefixes[i].bits) \in 1..Depth
        /\ \A k \in 1..Len(prefixes[i].bits) : prefixes[i].bits[k] \in {0,1}
  /\ \A i \in 1..Len(punctured) : Len(punctured[i]) = Depth

\* (invariants are phrased over node ids <<length, value>> so that TLC converts each
\*  path once per state; IdPrefix is IsPrefixOf on ids)
IdPrefix(n, m) == n[1] <= m[1] /\ m[2] % (2^n[1]) = n[2]
\* (level 0 is the root: it lies on the path to every input)
PLevels(P) == [k \in 0..Depth |-> {y % (2^k) : y \in P}]

PrefixFree ==
  LET K == NodeIdsOf(prefixes)
  IN /\ Cardinality(K) = Len(prefixes)
     /\ \A n, m \in K : n # m => ~IdPrefix(n, m)

\* the retained nodes cover exactly the unpunctured inputs, each exactly once
ExactCover ==
  LET P == PuncturedSet
      K == NodeIdsOf(prefixes)
  IN /\ Cardinality(K) = Len(prefixes)
     /\ \A x \in Inputs :
          Cardinality({n \in K : x % (2^n[1]) = n[2]}) = IF x \in P THEN 0 ELSE 1

\* every retained seed is the fresh-key seed of its own node
SeedIsPath == \A i \in 1..Len(prefixes) : prefixes[i].seed = prefixes[i].bits

\* no retained seed lies on the path to a punctured input
ForwardSecure ==
  LET PL == PLevels(PuncturedSet)
      S  == {<<Len(prefixes[i].seed), Val(prefixes[i].seed)>> : i \in 1..Len(prefixes)}
  IN \A n \in S : n[1] \in 1..Depth /\ n[2] \notin PL[n[1]]

\* unpunctured inputs keep the value they had on the fresh key (= their path)
EvalStable == LET P == PuncturedSet IN \A x \in Inputs \ P : Eval(x) = BitsOf(x)
PuncturedStayDead == LET P == PuncturedSet IN \A x \in P : Eval(x) = <<>>
DistinctValues ==
  \A x, y \in Dom : (x # y /\ Eval(x) # <<>> /\ Eval(y) # <<>>) => Eval(x) # Eval(y)

\* a punctured input can be punctured again in no state
RePunctureFails ==
  LET P == PuncturedSet IN \A x \in P : ~PunctureOf(prefixes, punctured, x).ok

\* canonical cover: a node is retained iff its subtree is puncture-free and its
\* parent's subtree is not (the root is always split).  Implies order independence.
\* definitional form (quadratic; used in the small exhaustive models)
CanonicalNodeIdsDef ==
  LET P == PuncturedSet
      CleanN(k, v) == \A x \in P : x % (2^k) # v
  IN {n \in {<<k, v>> \in (1..Depth) \X Inputs : v < 2^k} :
        /\ CleanN(n[1], n[2])
        /\ (n[1] = 1 \/ ~CleanN(n[1] - 1, n[2] % (2^(n[1]-1))))}
CanonicalDef == NodeIdsOf(prefixes) = CanonicalNodeIdsDef

\* equivalent fast form: a canonical node below the root's children is the sibling of an
\* ancestor-or-self of some punctured input (its parent must contain a punctured input
\* which the node itself does not contain)
CanonicalNodeIds ==
  LET P  == PuncturedSet
      PL == PLevels(P)
      SibV(x, k) == LET a == x % (2^k) h == 2^(k-1) IN IF a >= h THEN a - h ELSE a + h
      Cand == {<<1, 0>>, <<1, 1>>} \cup {<<k, SibV(x, k)>> : x \in P, k \in 1..Depth}
  IN {n \in Cand : n[2] \notin PL[n[1]]}
Canonical == NodeIdsOf(prefixes) = CanonicalNodeIds

(***************************************************************************)
(* Linear-time forms of the two quadratic invariants, used when validating  *)
(* long implementation traces at full depth.  FastFormsAgree is checked in  *)
(* every exhaustive model, so they are not trusted.                         *)
(***************************************************************************)
PrefixFreeFast ==
  LET K == NodeIdsOf(prefixes)
  IN /\ Cardinality(K) = Len(prefixes)
     /\ \A n \in K : \A k \in 1..(n[1] - 1) : <<k, n[2] % (2^k)>> \notin K

RECURSIVE SumSizes(_)
SumSizes(K) == IF K = {} THEN 0
               ELSE LET n == CHOOSE m \in K : TRUE IN 2^(Depth - n[1]) + SumSizes(K \ {n})

\* prefix-free nodes are disjoint, so: exact cover iff no node contains a punctured input
\* and the subtree sizes add up to the number of unpunctured inputs
ExactCoverFast ==
  LET P  == PuncturedSet
      PL == PLevels(P)
      K  == NodeIdsOf(prefixes)
  IN /\ PrefixFreeFast
     /\ \A n \in K : n[2] \notin PL[n[1]]
     /\ SumSizes(K) = N - Cardinality(P)

FastFormsAgree == /\ PrefixFree = PrefixFreeFast
                  /\ (PrefixFree => (ExactCover = ExactCoverFast))
                  /\ Canonical = CanonicalDef

NoDupPunctured ==
  \A i, j \in 1..Len(punctured) : i # j => punctured[i] # punctured[j]

Inv == /\ TypeOK /\ PrefixFree /\ ExactCover /\ SeedIsPath /\ ForwardSecure
       /\ EvalStable /\ PuncturedStayDead /\ DistinctValues /\ RePunctureFails
       /\ Canonical /\ NoDupPunctured /\ FastFormsAgree

\* action property: the punctured list only grows, by at most the requested input
PunctureMonotone ==
  [][/\ Len(punctured') \in {Len(punctured), Len(punctured) + 1}
     /\ SubSeq(punctured', 1, Len(punctured)) = punctured]_vars
=============================================================================
