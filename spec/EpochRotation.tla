--------------------------- MODULE EpochRotation ---------------------------
(***************************************************************************)
(* The example randomness web service ppoprf/examples/server.rs (growth     *)
(* beyond the listed properties; C14 names the file as an anchor).          *)
(*   state behind an RwLock:  prf_server, active_md, future_mds (a queue)   *)
(*   request handlers:  take the READ lock, evaluate under active_md        *)
(*   rotation task:     for each configured md in order: sleep; take the    *)
(*                      WRITE lock; puncture(md); active_md :=              *)
(*                      future_mds.pop_front().unwrap()                     *)
(* A panic while a write guard is held poisons the lock; every later        *)
(* `state.read().unwrap()` then panics as well.                             *)
(***************************************************************************)
EXTENDS Naturals, Sequences, FiniteSets

CONSTANTS Mds          \* the configured sequence of epoch tags

VARIABLES active,      \* active_md
          future,      \* future_mds
          punct,       \* tags punctured in prf_server
          next,        \* index of the tag the rotation task will puncture next
          poisoned,    \* the RwLock is poisoned
          taskAlive,   \* the rotation task is still running
          served       \* set of <<tag>> for which a request was answered (history)
vars == <<active, future, punct, next, poisoned, taskAlive, served>>

Init == /\ active = Mds[1] /\ future = Tail(Mds) /\ punct = {} /\ next = 1
        /\ poisoned = FALSE /\ taskAlive = TRUE /\ served = {}

\* a request: read lock (panics if poisoned — modelled as not answered), eval under active_md
Request ==
  /\ ~poisoned
  /\ active \notin punct            \* Server::eval fails with NoPrefixFound otherwise (an error reply)
  /\ served' = served \cup {active}
  /\ UNCHANGED <<active, future, punct, next, poisoned, taskAlive>>

\* one iteration of the rotation loop, atomically under the write lock
Rotate ==
  /\ taskAlive /\ next <= Len(Mds)
  /\ punct' = punct \cup {Mds[next]}
  /\ IF future # <<>>
       THEN /\ active' = Head(future) /\ future' = Tail(future)
            /\ poisoned' = poisoned /\ taskAlive' = TRUE
       ELSE \* pop_front().unwrap() on an empty queue: panic inside the write guard
            /\ poisoned' = TRUE /\ taskAlive' = FALSE
            /\ UNCHANGED <<active, future>>
  /\ next' = next + 1
  /\ UNCHANGED served

Next == Request \/ Rotate
Spec == Init /\ [][Next]_vars /\ WF_vars(Rotate)

\* what the service is meant to guarantee
ActiveIsCurrent == ~poisoned => (active \notin punct \/ next > Len(Mds))
\* requests are only ever answered under a tag that was unpunctured at that time
ServedWhileLive == [][\A t \in served' \ served : t \notin punct]_vars

\* OBSERVATION (not a listed property): the last rotation poisons the lock — the state below is
\* reachable, after which every request handler panics instead of replying with an error.
NeverPoisoned == ~poisoned
=============================================================================
