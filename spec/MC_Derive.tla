----------------------------- MODULE MC_Derive -----------------------------
(* C04: locally derived randomness, tag and key are a function of exactly            *)
(* (measurement, epoch, threshold).  The derivation is modelled as the Strobe         *)
(* transcript the code builds: key(m), ad(e), ad(LE32 t) — a SEQUENCE of framed       *)
(* operations.  With Framed = FALSE the operations are merely concatenated, which is  *)
(* the classic mistake; TLC shows that configuration is not injective (expected to    *)
(* fail; it documents why the framing matters and which pairs a check must try).      *)
EXTENDS Star, TLC, Json

CONSTANTS Framed, Syms, MaxLen, Thrs

Strs == UNION {[1..n -> Syms] : n \in 0..MaxLen}
Triples == Strs \X Strs \X Thrs

\* LE32 of small thresholds as an abstract 4-symbol string over a disjoint alphabet
LE(t) == <<100 + t, 100, 100, 100>>
Transcript(tr) ==
  IF Framed THEN << <<"key", tr[1]>>, <<"ad", tr[2]>>, <<"ad", LE(tr[3])>> >>
            ELSE tr[1] \o tr[2] \o LE(tr[3])
Digest(tr) == <<"H", Transcript(tr)>>          \* ideal hash of the transcript

Injective == \A a, b \in Triples : (Digest(a) = Digest(b)) <=> (a = b)

\* the model of Star.tla uses exactly this function
AgreesWithStar ==
  \A a, b \in Triples :
     (Rnd("local", Str(a[1]), Str(a[2]), a[3]) = Rnd("local", Str(b[1]), Str(b[2]), b[3])) <=> (a = b)

\* downstream: tag and key inherit it, whatever the associated data
TagKeyFunctionOfTriple ==
  \A a, b \in Triples : \A x, y \in {NoAux, Aux(<<>>), Aux(<<1>>)} :
     LET ca == [m |-> Str(a[1]), e |-> Str(a[2]), t |-> a[3], aux |-> x, src |-> "local"]
         cb == [m |-> Str(b[1]), e |-> Str(b[2]), t |-> b[3], aux |-> y, src |-> "local"]
     IN /\ (TagOf(ca) = TagOf(cb)) <=> (a = b)
        /\ (KeyOf(ca) = KeyOf(cb)) <=> (a = b)

\* pairs that merely move symbols across the measurement/epoch boundary
ShiftPairs == {p \in Triples \X Triples : p[1] # p[2] /\ p[1][3] = p[2][3] /\ p[1][1] \o p[1][2] = p[2][1] \o p[2][2]}

SetToSeq(S) == LET RECURSIVE F(_) F(T) == IF T = {} THEN <<>> ELSE LET m == CHOOSE a \in T : TRUE IN <<m>> \o F(T \ {m}) IN F(S)
TripleSeq == SetToSeq(Triples)
Line(i) == [m |-> TripleSeq[i][1], e |-> TripleSeq[i][2], t |-> TripleSeq[i][3],
            cls |-> CHOOSE j \in 1..Len(TripleSeq) : Digest(TripleSeq[j]) = Digest(TripleSeq[i])
                       /\ \A k \in 1..(j-1) : Digest(TripleSeq[k]) # Digest(TripleSeq[i])]

VARIABLE i
Init == i = 0
Next == i < Len(TripleSeq) /\ i' = i + 1
Spec == Init /\ [][Next]_i
EmitInv == i >= 1 => PrintT(<<"DERIVE", ToJson(Line(i))>>)
Checks == (i = 1) => (Injective /\ AgreesWithStar /\ TagKeyFunctionOfTriple /\ ShiftPairs # {})
ShiftCount == (i = 1) => PrintT(<<"SHIFTPAIRS", ToJson([n |-> Cardinality(ShiftPairs)])>>)
=============================================================================
