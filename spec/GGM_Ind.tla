------------------------------ MODULE GGM_Ind ------------------------------
(***************************************************************************)
(* The GGM puncturable key at the level of node identifiers, for an        *)
(* UNBOUNDED argument over the complete 8-bit domain: all 2^256 punctured  *)
(* sets, reached in any order (the quantifier of C10 / C11), are covered   *)
(* by one inductive invariant discharged symbolically with Apalache        *)
(*     Init => IndInv        IndInv /\ Next => IndInv'                     *)
(* whereas TLC enumerates sub-lattices of at most 2^16 sets (MC_GGM).      *)
(*                                                                         *)
(* A node is <<k, v>>: level k in 0..Depth, v in 0..2^k-1 the value of the *)
(* first k bits of the inputs below it (bit i of the input has weight      *)
(* 2^(i-1), as in GGM.tla: input x lies below <<k, x % 2^k>>).             *)
(* GGM.tla (sequences of bits, seeds) refines this module under            *)
(*     retained <- NodeIdsOf(prefixes)   punctured <- PuncturedSet         *)
(* which MC_GGM checks as a step property on its sub-domains.              *)
(***************************************************************************)
EXTENDS Integers, FiniteSets

CONSTANT
  \* @type: Int;
  Depth

VARIABLES
  \* @type: Set(<<Int, Int>>);
  retained,
  \* @type: Set(Int);
  punctured

\* @type: (Int, Int) => <<Int, Int>>;
Nd(k, v) == <<k, v>>

\* powers of two and reductions by them, level by level (Apalache wants constant exponents
\* and constant moduli; Depth <= 8)
\* @type: Int => Int;
P2(k) == IF k = 0 THEN 1 ELSE IF k = 1 THEN 2 ELSE IF k = 2 THEN 4 ELSE IF k = 3 THEN 8 ELSE IF k = 4 THEN 16
         ELSE IF k = 5 THEN 32 ELSE IF k = 6 THEN 64 ELSE IF k = 7 THEN 128 ELSE 256
\* @type: (Int, Int) => Int;
ModP2(x, k) == IF k = 0 THEN 0 ELSE IF k = 1 THEN x % 2 ELSE IF k = 2 THEN x % 4 ELSE IF k = 3 THEN x % 8
               ELSE IF k = 4 THEN x % 16 ELSE IF k = 5 THEN x % 32 ELSE IF k = 6 THEN x % 64
               ELSE IF k = 7 THEN x % 128 ELSE x % 256

N == 2^Depth
Inputs == 0..(N - 1)
Levels == 1..Depth

\* the node of level k on the path to input x
\* @type: (Int, Int) => <<Int, Int>>;
Anc(x, k) == Nd(k, ModP2(x, k))
\* the nodes on the path to x (the root included)
Path(x) == {Anc(x, k) : k \in 0..Depth}
Nodes == UNION {Path(x) : x \in Inputs}
\* the sibling of the level-k node on the path to x
\* @type: (Int, Int) => <<Int, Int>>;
Sib(x, k) == LET a == ModP2(x, k)
                 h == P2(k - 1)
             IN Nd(k, IF a >= h THEN a - h ELSE a + h)

Init == /\ retained = {Nd(1, 0), Nd(1, 1)}
        /\ punctured = {}

\* puncture(x): refused for a punctured input; otherwise the covering node n (level k) is
\* replaced by the siblings of the path below it
PunctureAt(x, k) ==
  /\ x \notin punctured
  /\ Anc(x, k) \in retained
  /\ retained' = (retained \ {Anc(x, k)}) \cup {Sib(x, j) : j \in {i \in Levels : i > k}}
  /\ punctured' = punctured \cup {x}
Puncture(x) == \E k \in 0..Depth : PunctureAt(x, k)

Next == \E x \in Inputs : Puncture(x)

TypeOK == /\ retained \in SUBSET Nodes
          /\ punctured \in SUBSET Inputs

\* the inductive invariant: a punctured input has NO retained node on its path (C11: nothing
\* from which its value could be recomputed), every other input has EXACTLY one (C10: it is
\* still evaluated, and by one seed only)
IndInv ==
  /\ TypeOK
  /\ \A x \in Inputs :
       IF x \in punctured THEN Path(x) \cap retained = {}
                          ELSE Cardinality(Path(x) \cap retained) = 1

\* consequences used by the properties
ForwardSecure == \A x \in punctured : \A n \in retained : n \notin Path(x)
Covered == \A x \in Inputs \ punctured : \E n \in retained : n \in Path(x)
\* a step never changes the covering status of any input other than the punctured one
\* (action property; under IndInv the value of an input is a function of its covering node's
\*  seed and the path below it, both fixed at key creation)
OthersKeepCover(x) == \A y \in Inputs \ {x} : (Path(y) \cap retained = {}) = (Path(y) \cap retained' = {})
=============================================================================
