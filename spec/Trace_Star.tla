----------------------------- MODULE Trace_Star -----------------------------
(* Trace validation (binding B) for Adss.tla / Star.tla at large scope: reports of   *)
(* many clients (thresholds up to 200) and arbitrary selections handed to the real   *)
(* share_recover.  The recorder interns byte strings (group = (m, e, t, source);     *)
(* point = x-coordinate of the share), the spec rebuilds the symbolic shares and     *)
(* judges every logged outcome against the recovery contract of Adss.tla (what the   *)
(* properties demand); agreement with the code-shaped reference AdssRecover (first   *)
(* share supplies threshold / C / D / J, dedup keeps the first occurrence, first t   *)
(* distinct points) is counted in `agree` and reported, not demanded.                *)
EXTENDS Star, TLC, Json, IOUtils

Recs == ndJsonDeserialize(IOEnv.TRACE)

VARIABLES l, clients      \* clients: function client id -> [g, t, x]
tvars == <<l, clients>>

IsEv(name) == l <= Len(Recs) /\ Recs[l].ev = name /\ l' = l + 1

SidG(g, t) == Sid(DefaultT, t, <<"R", 0, <<"G", g>>>>, <<"R", 1, <<"G", g>>>>)
ShareC(c) == ShareOf(SidG(clients[c].g, clients[c].t), clients[c].x)

\* TLC register 1 counts the Recover events whose outcome equals the reference model's
TraceInit == l = 1 /\ clients = <<>> /\ TLCSet(1, 0)

TReset == IsEv("Reset") /\ clients' = <<>>

\* a report was generated, encoded, decoded; the recorder logged its group, threshold, point
TClient ==
  /\ IsEv("Client")
  /\ Recs[l].id = Len(clients) + 1
  /\ clients' = Append(clients, [g |-> Recs[l].g, t |-> Recs[l].t, x |-> Recs[l].x])
 

\* share_recover(selection) with an optional forged threshold on one position
TRecover ==
  /\ IsEv("Recover")
  /\ LET r  == Recs[l]
         sh == [i \in 1..Len(r.sel) |->
                  IF r.forge_pos = i THEN [ShareC(r.sel[i]) EXCEPT !.thr = r.forge_thr] ELSE ShareC(r.sel[i])]
         orig    == [i \in 1..Len(r.sel) |-> SidG(clients[r.sel[i]].g, clients[r.sel[i]].t)]
         genuine == [i \in 1..Len(r.sel) |-> TRUE]                 \* only threshold fields are forged here
         intact  == [i \in 1..Len(r.sel) |-> r.forge_pos # i \/ r.forge_thr = clients[r.sel[i]].t]
         \* the logged outcome as an outcome record: success means the message opened every
         \* report of the first share's group (r.grp is that group, r.opened says all opened)
         o  == IF r.ok = 1 THEN [ok |-> TRUE, sid |-> SidG(r.grp, clients[r.sel[1]].t)] ELSE [ok |-> FALSE]
     IN /\ MeetsContract(o, sh, orig, genuine, intact)
        /\ r.ok = 1 => r.opened = 1
        /\ TLCSet(1, TLCGet(1) + (IF (r.ok = 1) = AdssRecover(sh).ok THEN 1 ELSE 0))
  /\ UNCHANGED clients

TraceNext == TReset \/ TClient \/ TRecover
TraceSpec == TraceInit /\ [][TraceNext]_tvars

\* points are fresh: no two clients share an evaluation point (C04 / C01: OS randomness)
TraceInv == \A a, b \in 1..Len(clients) : a # b => clients[a].x # clients[b].x

Accepted ==
  LET d == TLCGet("stats").diameter
  IN IF d = Len(Recs) + 1 THEN PrintT(<<"AGREE", TLCGet(1), Cardinality({i \in 1..Len(Recs) : Recs[i].ev = "Recover"})>>)
     ELSE /\ PrintT(<<"REJECTED", ToJson([at |-> d, ev |-> Recs[d]])>>)
          /\ FALSE
=============================================================================
