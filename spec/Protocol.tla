------------------------------ MODULE Protocol ------------------------------
(***************************************************************************)
(* The STAR protocol end to end, composing the other modules:              *)
(*   randomness server   PPOPRF.tla (with the GGM key of GGM.tla),          *)
(*   clients             Star.tla   (report = ciphertext, ADSS share, tag), *)
(*   aggregation         Adss.tla   (recovery needs >= T distinct shares),  *)
(* over a sequence of epochs.  The randomness server answers requests for   *)
(* the current epoch tag and punctures the tag when the epoch ends.  At     *)
(* some point the adversary — who sees every report and holds a dictionary  *)
(* of candidate measurements — steals the server's key state.               *)
(*                                                                         *)
(* STAR's goal (forward security): with the stolen state he can run the     *)
(* dictionary attack only against epochs that were NOT yet punctured;       *)
(* reports of punctured epochs that did not reach the threshold stay        *)
(* hidden.  With locally derived randomness (STARLite) the dictionary       *)
(* attack needs no key at all — the negative configuration documents it.    *)
(***************************************************************************)
EXTENDS Star, TLC

CONSTANTS EpochTags,     \* sequence of epoch tags (8-bit numbers), in order
          Meas,          \* Meas[c] = measurement id of client c (a small natural)
          Dict,          \* measurement ids the adversary can guess
          T,             \* aggregation threshold
          Source         \* "oprf" (STAR) or "local" (STARLite)

P == INSTANCE PPOPRF WITH Tags <- {EpochTags[i] : i \in 1..Len(EpochTags)},
                          Reg1 <- {EpochTags[i] : i \in 1..Len(EpochTags)}, Reg2 <- {},
                          MaxInst <- 1, MaxSteps <- 0, srv <- <<>>, steps <- 0

NClients == Len(Meas)

VARIABLES server,    \* the randomness server instance (PPOPRF.tla record)
          cur,       \* index of the current epoch
          wire,      \* set of <<c, e>>: client c reported in epoch e
          stolen,    \* <<>> or the stolen server instance
          hist       \* history of actions (for the replay; hidden by the VIEW)
vars == <<server, cur, wire, stolen, hist>>

EpochStr(e) == Str(<<e>>)
ClientRec(c, e) == [m |-> Str(<<Meas[c]>>), e |-> EpochStr(e), t |-> T, aux |-> Aux(<<c>>), src |-> Source]
Report(c, e) == ReportOf(ClientRec(c, e), c * 100 + e, c * 100 + e)

Init == /\ server = P!NewServer(1, {EpochTags[i] : i \in 1..Len(EpochTags)})
        /\ cur = 1 /\ wire = {} /\ stolen = <<>> /\ hist = <<>>

\* a client obtains randomness for the current epoch (the server must answer) and reports
ClientReport(c) ==
  LET e == EpochTags[cur]
  IN /\ cur <= Len(EpochTags)
     /\ <<c, e>> \notin wire
     /\ Source = "oprf" => P!Answers(server, e)
     /\ wire' = wire \cup {<<c, e>>}
     /\ hist' = Append(hist, <<"report", c, e>>)
     /\ UNCHANGED <<server, cur, stolen>>

\* the epoch ends: the server punctures its tag and moves on
Rotate ==
  /\ cur <= Len(EpochTags)
  /\ server' = P!PunctureSt(<<server>>, 1, EpochTags[cur])[1]
  /\ cur' = cur + 1
  /\ hist' = Append(hist, <<"rotate", EpochTags[cur], 0>>)
  /\ UNCHANGED <<wire, stolen>>

\* the adversary steals the key state (once)
Compromise ==
  /\ stolen = <<>>
  /\ stolen' = server
  /\ hist' = Append(hist, <<"compromise", 0, 0>>)
  /\ UNCHANGED <<server, cur, wire>>

Next == (\E c \in 1..NClients : ClientReport(c)) \/ Rotate \/ Compromise
Spec == Init /\ [][Next]_vars

---------------------------------------------------------------------------
(* What the adversary learns                                               *)
Epochs == {EpochTags[i] : i \in 1..Len(EpochTags)}
ReportsOf(e) == {Report(w[1], e) : w \in {w \in wire : w[2] = e}}

\* (a) everything derivable from the reports alone (>= T shares open a group)
FromWire == Know(UNION {ReportsOf(e) : e \in Epochs}, {EpochStr(e) : e \in Epochs})

\* (b) dictionary attack: for a guessed measurement g and an epoch e he can compute the
\*     client randomness iff he can evaluate the PRF for e — with the stolen key state
\*     (STAR), or always (STARLite) — and then recognise the tag among the reports
CanEvaluate(e) == IF Source = "local" THEN TRUE ELSE stolen # <<>> /\ P!Answers(stolen, e)
GuessTag(g, e) == TagOf([m |-> Str(<<g>>), e |-> EpochStr(e), t |-> T, aux |-> NoAux, src |-> Source])
Guessed == {<<g, e>> \in Dict \X Epochs : CanEvaluate(e) /\ \E r \in ReportsOf(e) : r.tag = GuessTag(g, e)}

Learned(e) == {g \in {Meas[c] : c \in 1..NClients} :
                 \/ (Str(<<g>>) \in FromWire /\ (\E w \in wire : w[2] = e /\ Meas[w[1]] = g))
                 \/ <<g, e>> \in Guessed}

Count(g, e) == Cardinality({w \in wire : w[2] = e /\ Meas[w[1]] = g})
PuncturedAtTheft(e) == stolen # <<>> /\ ~P!Answers(stolen, e)

\* forward security: a measurement reported fewer than T times in an epoch that was already
\* punctured when the key state was stolen is not learned for that epoch, dictionary or not
\* (unless the same measurement is revealed anyway by another epoch's aggregation or attack)
ForwardSecrecy ==
  \A e \in Epochs : \A g \in {Meas[c] : c \in 1..NClients} :
     (Count(g, e) >= 1 /\ Count(g, e) < T /\ (stolen = <<>> \/ PuncturedAtTheft(e)) /\ Source = "oprf")
        => (<<g, e>> \notin Guessed /\ (Str(<<g>>) \in FromWire => \E e2 \in Epochs : Count(g, e2) >= T))

\* threshold aggregation is still complete
AggregationComplete ==
  \A e \in Epochs : \A g \in {Meas[c] : c \in 1..NClients} : Count(g, e) >= T => Str(<<g>>) \in FromWire

\* the server never answers a punctured (past) epoch, always answers the current and future ones
ServerEpochs ==
  \A i \in 1..Len(EpochTags) : P!Answers(server, EpochTags[i]) <=> i >= cur

Inv == ForwardSecrecy /\ AggregationComplete /\ ServerEpochs
=============================================================================
