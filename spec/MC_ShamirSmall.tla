--------------------------- MODULE MC_ShamirSmall ---------------------------
(* Exhaustive check of Shamir.tla over a small prime field GF(Q): every polynomial,   *)
(* every sequence of shares (with repetition) up to T+2, Lagrange interpolation as     *)
(* the independent reference, and information-theoretic secrecy.                      *)
EXTENDS Naturals, Sequences, FiniteSets, TLC

CONSTANTS Q, T, K,       \* field size (prime), threshold, number of secret elements
          MaxSel        \* bound on the number of shares handed to recover

SAdd(a, b) == (a + b) % Q
SSub(a, b) == (a + Q - b) % Q
SMul(a, b) == (a * b) % Q
SInv(a) == CHOOSE b \in 1..(Q - 1) : (a * b) % Q = 1

S == INSTANCE Shamir WITH FA <- SAdd, FS <- SSub, FM <- SMul, FZ <- 0, FO <- 1

Elems == 0..(Q - 1)

VARIABLES polys,     \* the dealt polynomials (chosen nondeterministically: all of them)
          sel        \* the sequence of shares handed to recover
vars == <<polys, sel>>

AllPolys == [1..K -> [1..(IF T = 0 THEN 1 ELSE T) -> Elems]]
Init == polys \in AllPolys /\ sel = <<>>
Pick(x) == /\ Len(sel) < MaxSel
           /\ sel' = Append(sel, S!ShareAt(polys, x))
           /\ UNCHANGED polys
Next == \E x \in 1..(Q - 1) : Pick(x)
Spec == Init /\ [][Next]_vars

\* textbook Lagrange interpolation at 0 (the independent reference)
RECURSIVE Prod(_, _, _), Sum(_, _, _)
Prod(pts, i, j) == IF j > Len(pts) THEN 1
                   ELSE IF j = i THEN Prod(pts, i, j + 1)
                   ELSE SMul(SMul(pts[j].x, SInv(SSub(pts[j].x, pts[i].x))), Prod(pts, i, j + 1))
Sum(pts, e, i) == IF i > Len(pts) THEN 0 ELSE SAdd(SMul(pts[i].y[e], Prod(pts, i, 1)), Sum(pts, e, i + 1))
Lagrange(pts) == [e \in 1..K |-> Sum(pts, e, 1)]

Secret == S!ConstTerms(polys)
Distinct == {sel[i].x : i \in 1..Len(sel)}

RecoverCorrect ==
  LET r == S!Selected(T, sel)
  IN /\ r.ok <=> (T >= 1 /\ Cardinality(Distinct) >= T)        \* refused iff too few distinct (or t = 0)
     /\ r.ok => /\ Lagrange(r.pts) = Secret                     \* order, duplicates, surplus: irrelevant
                /\ \A i \in 1..T : S!OnPolys(polys, r.pts[i])    \* certificate form agrees

\* a polynomial of exact degree T-1 is NOT determined by T-1 points: interpolating the first
\* T-1 distinct points as if the threshold were T-1 misses the secret whenever the leading
\* coefficient is non-zero and T >= 2 (a lower forged threshold yields junk)
ForgedLowerThresholdMisses ==
  (T >= 2 /\ Cardinality(Distinct) >= T - 1 /\ K = 1 /\ polys[1][1] # 0) =>
     LET r == S!Selected(T - 1, sel)
     IN r.ok => (Lagrange(r.pts)[1] = Secret[1]) =
                  \* it can coincide only when the degree-(T-2) interpolant happens to hit it
                  (Lagrange(r.pts)[1] = polys[1][T])

\* perfect secrecy: for every T-1 distinct points and every observed y's, each candidate
\* secret is consistent with the same number of polynomials (checked for K = 1)
PerfectSecrecy ==
  (K = 1 /\ T >= 2) =>
    \A X \in {X \in SUBSET (1..(Q - 1)) : Cardinality(X) = T - 1} :
      \A ys \in [X -> Elems] :
        \A s1, s2 \in Elems :
          Cardinality({p \in [1..T -> Elems] : p[T] = s1 /\ \A x \in X : S!Horner(p, x) = ys[x]})
          = Cardinality({p \in [1..T -> Elems] : p[T] = s2 /\ \A x \in X : S!Horner(p, x) = ys[x]})

Inv == RecoverCorrect /\ ForgedLowerThresholdMisses
=============================================================================
