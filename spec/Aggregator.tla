----------------------------- MODULE Aggregator -----------------------------
(***************************************************************************)
(* The reference aggregation server of star/test-utils/src/lib.rs:          *)
(*   retrieve_outputs = collect_messages (bucket the reports by tag, in a   *)
(*   HashMap: iteration order arbitrary) -> filter (buckets with at least   *)
(*   `threshold` reports) -> a rayon pool maps recover_measurements over    *)
(*   the buckets (any worker may take any pending bucket at any time) ->    *)
(*   collect.                                                               *)
(* A report is <<g, a>>: group (= measurement = tag, for one epoch and       *)
(* threshold) and an associated-data id (0 = absent / empty).               *)
(***************************************************************************)
EXTENDS Naturals, Sequences, FiniteSets, Bags

CONSTANTS Sizes,        \* Sizes[g] = number of reports of group g
          Threshold,
          Workers       \* set of worker ids

Groups == 1..Len(Sizes)
Reports == UNION {{<<g, i>> : i \in 1..Sizes[g]} : g \in Groups}   \* the i-th client of g attaches aux id i-1

VARIABLES pending,     \* reports not yet bucketed (a set: arrival order is arbitrary)
          buckets,     \* g -> sequence of reports, in arrival order
          phase,       \* "collect" | "filter" | "map" | "done"
          todo,        \* buckets waiting for a worker
          busy,        \* worker -> bucket it is processing, or 0
          out          \* set of outputs <<g, bag of aux ids>>
vars == <<pending, buckets, phase, todo, busy, out>>

Init == /\ pending = Reports
        /\ buckets = [g \in Groups |-> <<>>]
        /\ phase = "collect" /\ todo = {} /\ busy = [w \in Workers |-> 0] /\ out = {}

\* collect_messages: one report at a time, in any order
Collect(r) == /\ phase = "collect" /\ r \in pending
              /\ pending' = pending \ {r}
              /\ buckets' = [buckets EXCEPT ![r[1]] = Append(@, r)]
              /\ UNCHANGED <<phase, todo, busy, out>>
EndCollect == /\ phase = "collect" /\ pending = {}
              /\ phase' = "filter" /\ UNCHANGED <<pending, buckets, todo, busy, out>>

\* filter_messages: bucket.len() >= threshold
Filter == /\ phase = "filter"
          /\ todo' = {g \in Groups : Len(buckets[g]) >= Threshold /\ Len(buckets[g]) > 0}
          /\ phase' = "map" /\ UNCHANGED <<pending, buckets, busy, out>>

\* the pool: an idle worker takes any waiting bucket; finishing emits the bucket's output
Take(w, g) == /\ phase = "map" /\ busy[w] = 0 /\ g \in todo
              /\ todo' = todo \ {g} /\ busy' = [busy EXCEPT ![w] = g]
              /\ UNCHANGED <<pending, buckets, phase, out>>
AuxBag(g) == LET s == buckets[g]
                 RECURSIVE B(_)
                 B(i) == IF i > Len(s) THEN EmptyBag ELSE SetToBag({s[i][2] - 1}) (+) B(i + 1)
             IN B(1)
Finish(w) == /\ phase = "map" /\ busy[w] # 0
             /\ out' = out \cup {<<busy[w], AuxBag(busy[w])>>}
             /\ busy' = [busy EXCEPT ![w] = 0]
             /\ UNCHANGED <<pending, buckets, phase, todo>>
Join == /\ phase = "map" /\ todo = {} /\ \A w \in Workers : busy[w] = 0
        /\ phase' = "done" /\ UNCHANGED <<pending, buckets, todo, busy, out>>

Next == \/ \E r \in Reports : Collect(r)
        \/ EndCollect \/ Filter \/ Join
        \/ \E w \in Workers : Finish(w) \/ \E g \in Groups : Take(w, g)
Spec == Init /\ [][Next]_vars /\ WF_vars(Next)

---------------------------------------------------------------------------
\* what the property demands: exactly the groups with >= Threshold reports, each once, with
\* exactly the multiset of associated data its clients attached
RECURSIVE BagOf(_)
BagOf(n) == IF n = 0 THEN EmptyBag ELSE SetToBag({n - 1}) (+) BagOf(n - 1)
Expected == {<<g, BagOf(Sizes[g])>> : g \in {h \in Groups : Sizes[h] >= Threshold /\ Sizes[h] > 0}}

OutputCorrect == phase = "done" => out = Expected
NeverTooMuch == out \subseteq Expected                      \* nothing below threshold, nothing twice
NoLostBucket == phase = "map" =>
   \A g \in Groups : (Sizes[g] >= Threshold /\ Sizes[g] > 0) =>
       (g \in todo \/ (\E w \in Workers : busy[w] = g) \/ <<g, BagOf(Sizes[g])>> \in out)
Inv == OutputCorrect /\ NeverTooMuch /\ NoLostBucket
Terminates == <>(phase = "done")
=============================================================================
