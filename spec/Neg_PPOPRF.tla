----------------------------- MODULE Neg_PPOPRF -----------------------------
(* NEGATIVE model (must be refuted): an import that installs the OPRF key and the public  *)
(* key but keeps the importing instance's own (fresh) GGM key — every puncture made by    *)
(* the exporter is forgotten.                                                              *)
EXTENDS PPOPRF
BadImportInto(fresh, blob) == [fresh EXCEPT !.key = blob.oprf_key, !.pk = blob.public_key]
NegExportImport(i) ==
  /\ Len(srv) < MaxInst
  /\ srv' = Append(srv, BadImportInto(NewServer(99, {}), ExportOf(srv[i])))
  /\ steps' = steps + 1
NegNext == \/ \E i \in Live, md \in Tags : Puncture(i, md)
           \/ \E i \in Live : NegExportImport(i)
NegSpec == Init /\ [][NegNext]_vars
NegTags == {0, 1}
\* a newly created instance answers exactly like some instance that existed when it was created
NewLikeExisting ==
  [][Len(srv') = Len(srv) + 1 =>
       \E i \in Live : \A md \in Tags : Answers(srv'[Len(srv')], md) = Answers(srv[i], md)]_vars
=============================================================================
