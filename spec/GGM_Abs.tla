------------------------------ MODULE GGM_Abs ------------------------------
(***************************************************************************)
(* The puncturable key with every retained tree node abstracted to the SET *)
(* OF INPUTS below it.  At this level the safety argument of C10 / C11 is  *)
(* pure set theory and holds for ANY input domain and ANY tree shape; it   *)
(* is proved below with TLAPS (no bound at all):                           *)
(*                                                                         *)
(*   Inv:  the retained sets are pairwise disjoint and their union is      *)
(*         exactly Inputs \ punctured                                      *)
(*                                                                         *)
(* so a punctured input lies below no retained node (forward security),    *)
(* every other input lies below exactly one (it still evaluates), and a    *)
(* step changes the covering status of the punctured input only.           *)
(*                                                                         *)
(* The only tree-specific fact — the siblings of the path from the         *)
(* covering node down to x partition (leaves of that node) \ {x} — is      *)
(* finite for the 8-bit tree and checked exhaustively by TLC together with *)
(* the refinement GGM_Ind => GGM_Abs (MC_GGM_Abs).                         *)
(***************************************************************************)
EXTENDS TLAPS

CONSTANT Inputs
VARIABLES retained,    \* a set of sets of inputs
          punctured    \* a set of inputs
vars == <<retained, punctured>>

Disjoint(Q) == \A a, b \in Q : a # b => a \cap b = {}
IsPartition(Q, S) == Disjoint(Q) /\ UNION Q = S

Init == /\ IsPartition(retained, Inputs)
        /\ punctured = {}

\* puncture x: the retained set n holding x is replaced by the parts Q of n \ {x}
PunctureWith(x, n, Q) ==
  /\ x \in Inputs \ punctured
  /\ n \in retained /\ x \in n
  /\ Q \in SUBSET (SUBSET Inputs) /\ IsPartition(Q, n \ {x})
  /\ retained' = (retained \ {n}) \cup Q
  /\ punctured' = punctured \cup {x}
Puncture(x) == \E n \in retained : \E Q \in SUBSET (SUBSET Inputs) : PunctureWith(x, n, Q)

Next == \E x \in Inputs : Puncture(x)
Spec == Init /\ [][Next]_vars

Inv == /\ punctured \subseteq Inputs
       /\ IsPartition(retained, Inputs \ punctured)

\* what the properties read off the invariant
ForwardSecure == \A x \in punctured : \A n \in retained : x \notin n
CoveredOnce == \A x \in Inputs \ punctured :
                  \E n \in retained : x \in n /\ \A m \in retained : x \in m => m = n
\* a step changes the covering status of the punctured input only
OnlyXUncovered(x) == UNION retained' = (UNION retained) \ {x}

---------------------------------------------------------------------------
LEMMA InitInv == Init => Inv
  BY DEF Init, Inv, IsPartition, Disjoint

LEMMA StepInv == ASSUME Inv, NEW x \in Inputs, Puncture(x) PROVE Inv' /\ OnlyXUncovered(x)
<1>0. PICK n \in retained : \E Q \in SUBSET (SUBSET Inputs) : PunctureWith(x, n, Q)
  BY DEF Puncture
<1>a. PICK Q \in SUBSET (SUBSET Inputs) : PunctureWith(x, n, Q)
  BY <1>0
<1>1. x \in n
  BY <1>a DEF PunctureWith
<1>2. /\ IsPartition(Q, n \ {x})
      /\ retained' = (retained \ {n}) \cup Q
  BY <1>a DEF PunctureWith
<1>3. punctured' = punctured \cup {x} /\ x \notin punctured
  BY <1>a DEF PunctureWith
<1>4. Disjoint(retained) /\ UNION retained = Inputs \ punctured
  BY DEF Inv, IsPartition
<1>5. \A m \in retained : m # n => x \notin m
  BY <1>1, <1>4 DEF Disjoint
<1>6. \A q \in Q : q \subseteq n /\ x \notin q
  BY <1>2 DEF IsPartition
<1>7. Disjoint(retained')
  <2> SUFFICES ASSUME NEW a \in retained', NEW b \in retained', a # b PROVE a \cap b = {}
    BY DEF Disjoint
  <2>1. CASE a \in Q /\ b \in Q
    BY <2>1, <1>2 DEF IsPartition, Disjoint
  <2>2. CASE a \in retained \ {n} /\ b \in retained \ {n}
    BY <2>2, <1>4 DEF Disjoint
  <2>3. CASE a \in Q /\ b \in retained \ {n}
    <3>1. a \subseteq n BY <2>3, <1>6
    <3>2. b \cap n = {} BY <2>3, <1>4 DEF Disjoint
    <3> QED BY <3>1, <3>2
  <2>4. CASE a \in retained \ {n} /\ b \in Q
    <3>1. b \subseteq n BY <2>4, <1>6
    <3>2. a \cap n = {} BY <2>4, <1>4 DEF Disjoint
    <3> QED BY <3>1, <3>2
  <2> QED BY <1>2, <2>1, <2>2, <2>3, <2>4
<1>8. UNION retained' = (UNION retained) \ {x}
  <2>1. UNION Q = n \ {x} BY <1>2 DEF IsPartition
  <2>2. UNION retained' = (UNION (retained \ {n})) \cup (n \ {x})
    BY <1>2, <2>1
  <2>3. x \notin UNION (retained \ {n}) BY <1>5
  <2>4. UNION retained = (UNION (retained \ {n})) \cup n
    OBVIOUS
  <2> QED BY <2>2, <2>3, <2>4, <1>1
<1>9. UNION retained' = Inputs \ punctured'
  BY <1>8, <1>4, <1>3
<1>10. punctured' \subseteq Inputs
  BY <1>3 DEF Inv
<1> QED BY <1>7, <1>8, <1>9, <1>10 DEF Inv, IsPartition, OnlyXUncovered

THEOREM Safety == Spec => []Inv
<1>1. Inv /\ [Next]_vars => Inv'
  <2> SUFFICES ASSUME Inv, [Next]_vars PROVE Inv'
    OBVIOUS
  <2>1. CASE Next
    BY <2>1, StepInv DEF Next
  <2>2. CASE UNCHANGED vars
    BY <2>2 DEF vars, Inv, IsPartition, Disjoint
  <2> QED BY <2>1, <2>2
<1> QED BY InitInv, <1>1, PTL DEF Spec

THEOREM Consequences == Inv => ForwardSecure /\ CoveredOnce
<1> SUFFICES ASSUME Inv PROVE ForwardSecure /\ CoveredOnce
  OBVIOUS
<1>1. ForwardSecure
  BY DEF Inv, IsPartition, ForwardSecure
<1>2. CoveredOnce
  <2> SUFFICES ASSUME NEW x \in Inputs \ punctured
               PROVE \E n \in retained : x \in n /\ \A m \in retained : x \in m => m = n
    BY DEF CoveredOnce
  <2>1. PICK n \in retained : x \in n
    BY DEF Inv, IsPartition
  <2>2. \A m \in retained : x \in m => m = n
    BY <2>1 DEF Inv, IsPartition, Disjoint
  <2> QED BY <2>1, <2>2
<1> QED BY <1>1, <1>2
=============================================================================
