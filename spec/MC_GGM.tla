------------------------------ MODULE MC_GGM ------------------------------
(* Model-checking harness for GGM.tla: constants, a set-level VIEW, and the  *)
(* per-state observation table that is replayed into the real code.          *)
EXTENDS GGM, TLC, Json

CONSTANTS Probes     \* extra inputs whose liveness/value is observed in every state

\* ---- constant domains (TLC cfg files cannot hold set expressions with ..) ----
Dom_Aligned8   == 96..103                      \* one depth-5 subtree in *value* order
Dom_LowBits8   == {0,32,64,96,128,160,192,224}  \* differ only in the top 3 bits (deep cousins)
Dom_Sib10      == {0,1,2,3,128,129,254,255,127,126}
Dom_Unaligned12== {0,1,2,3,4,5,6,7,124,125,254,255}
Dom_Mixed16    == (0..7) \cup {64,65,128,129,192,193,254,255}
Dom_Full4      == 0..15                         \* with Depth = 4: the whole domain
Probes_Std     == {0,1,2,127,128,254,255,85,170}
Probes_4       == {}
Probes_All     == 0..255
Dom_Cous10     == {0,128,64,192,32,160,1,129,65,255}   \* sibling leaves, depth-7 and depth-6 cousins
Dom_Hist6      == {0,1,128,129,2,255}          \* siblings, cousins and far leaves; all 1957 histories
Dom_Sub16      == {5 + 16*j : j \in 0..15}     \* a complete depth-4 subtree below the node 1010

\* Set-level view: histories that reach the same retained-node set and the same
\* punctured set are identified (Canonical shows the former is a function of the latter).
SetView == <<{prefixes[i] : i \in 1..Len(prefixes)}, PuncturedSet>>

\* ---- observation table, one line per distinct state ----
SetToSeq(S) == LET RECURSIVE F(_) F(T) == IF T = {} THEN <<>> ELSE LET m == CHOOSE a \in T : \A b \in T : a <= b IN <<m>> \o F(T \ {m}) IN F(S)
StateLine ==
  LET P == PuncturedSet
      obs == Dom \cup Probes
  IN [ P    |-> SetToSeq(P),
       succ |-> [i \in 1..Cardinality(Dom) |->
                   LET x == SetToSeq(Dom)[i] IN <<x, IF PunctureOf(prefixes, punctured, x).ok THEN 1 ELSE 0>>],
       live |-> SetToSeq({x \in obs : Eval(x) # <<>>}),
       dead |-> SetToSeq({x \in obs : Eval(x) = <<>>}),
       nodes|-> [i \in 1..Len(prefixes) |-> <<Len(prefixes[i].bits), Val(prefixes[i].bits)>>] ]

\* ---- refinement: GGM.tla (bit sequences and seeds, code-shaped) => GGM_Ind (node identifiers),
\* whose inductive invariant covers all 2^256 punctured sets (Apalache) and which in turn refines
\* GGM_Abs (leaf sets; invariant proved with TLAPS).  x and the covering level are read off the step.
Ind == INSTANCE GGM_Ind WITH retained <- NodeIdsOf(prefixes), punctured <- PuncturedSet
RefinesIndStep ==
  LET R  == NodeIdsOf(prefixes)
      P  == PuncturedSet
      P2 == {Val(punctured'[i]) : i \in 1..Len(punctured')}
  IN IF P2 = P THEN NodeIdsOf(prefixes') = R            \* refused calls change nothing
     ELSE /\ Cardinality(P2 \ P) = 1
          /\ Cardinality(R \ NodeIdsOf(prefixes')) = 1
          /\ LET x == CHOOSE y \in P2 \ P : TRUE
                 n == CHOOSE m \in R \ NodeIdsOf(prefixes') : TRUE
             IN Ind!PunctureAt(x, n[1])
RefinesInd == [][RefinesIndStep]_vars
IndInvHolds == Ind!IndInv

Emit == PrintT(<<"GGMSTATE", ToJson(StateLine)>>)
EmitInv == Emit   \* PrintT returns TRUE
=============================================================================
