-------------------------------- MODULE Adss --------------------------------
(***************************************************************************)
(* Symbolic model of adss/src/lib.rs on top of sharks (Shamir):            *)
(* `Commune::share` and `recover`, with the code's own rules.              *)
(*                                                                         *)
(* A sharing is identified by  sid = <<T, t, M, R>>  (transcript id,       *)
(* threshold, message, coins).  `share()` derives deterministically from   *)
(* the transcript  ad(t) ad(M) key(R):                                     *)
(*     J = Mac(sid)   K = Key(sid)   coefficients Coef(sid, 1..t-1)        *)
(*     C = Enc(K, 1, M)   D = Enc(K, 2, R)                                 *)
(* and evaluates the polynomial  Poly(sid)  (constant term K, degree t-1,  *)
(* degree 0 for t = 0 as well: `for _ in 1..k` is empty) at a point drawn  *)
(* from the OS RNG — modelled as a fresh point id.                         *)
(*                                                                         *)
(* Ideal primitives: terms are equal iff identical; decrypting under a     *)
(* wrong key, or interpolating points that do not all lie on one           *)
(* polynomial of low enough degree, yields a Junk term that equals nothing *)
(* else.                                                                   *)
(***************************************************************************)
EXTENDS Naturals, Sequences, FiniteSets

DefaultT == 0                      \* transcript id of Strobe::new(b"adss")

Sid(T, t, M, R) == <<T, t, M, R>>
SidT(s) == s[1]
SidThr(s) == s[2]
SidM(s) == s[3]
SidR(s) == s[4]

Mac(s)  == <<"Mac", s>>
Key(s)  == <<"K", s>>
Enc(k, slot, p) == <<"Enc", k, slot, p>>
Junk(why) == <<"Junk", why>>

\* An inner Shamir share: x-coordinate (point id) and the y value, symbolically the
\* polynomial it lies on.  y = <<"Y", sid, x>> for an honest evaluation.
\* A sharing with threshold <= 1 has a constant polynomial: its y does not depend on x.
YVal(s, x) == IF SidThr(s) <= 1 THEN <<"Y", s, 0>> ELSE <<"Y", s, x>>

\* The share a `Commune::new(t, M, R, T).share()` call returns, at fresh point x
ShareOf(s, x) ==
  [thr |-> SidThr(s), x |-> x, y |-> <<YVal(s, x)>>,      \* one field element of secret => one y
   C |-> Enc(Key(s), 1, SidM(s)), D |-> Enc(Key(s), 2, SidR(s)), J |-> Mac(s)]

---------------------------------------------------------------------------
(* Sharks::recover(threshold, shares): Err or the interpolated secret term *)

\* dedup by x keeping the first occurrence, in order
RECURSIVE Dedup(_, _)
Dedup(sh, seen) ==
  IF sh = <<>> THEN <<>>
  ELSE IF Head(sh).x \in seen THEN Dedup(Tail(sh), seen)
       ELSE <<Head(sh)>> \o Dedup(Tail(sh), seen \cup {Head(sh).x})

Ragged(sh) == \E i \in 1..Len(sh) : Len(sh[i].y) # Len(sh[1].y)

\* Lagrange interpolation at 0 over the given points (ideal: generic position).
\* All y's honest evaluations of ONE polynomial Poly(s), and enough points for its
\* degree (number of points >= max(t_s, 1))  ==> the constant term Key(s).
Interp(pts) ==
  IF pts = <<>> THEN [ok |-> FALSE]
  ELSE IF Len(pts[1].y) = 0 THEN [ok |-> TRUE, val |-> <<"Empty">>]    \* no y-coordinates: empty secret
  ELSE LET y1 == pts[1].y[1]
       IN IF /\ y1[1] = "Y"
             /\ \A i \in 1..Len(pts) : pts[i].y[1] = YVal(y1[2], pts[i].x)
             /\ Len(pts) >= (IF SidThr(y1[2]) = 0 THEN 1 ELSE SidThr(y1[2]))
            THEN [ok |-> TRUE, val |-> Key(y1[2])]
            ELSE [ok |-> TRUE, val |-> Junk(<<"interp", [i \in 1..Len(pts) |-> <<pts[i].x, pts[i].y>>]>>)]

SharksRecover(thr, sh) ==
  IF sh = <<>> THEN [ok |-> FALSE]
  ELSE IF Ragged(sh) THEN [ok |-> FALSE]
  ELSE LET d == Dedup(sh, {})
       IN IF Len(d) < thr THEN [ok |-> FALSE]
          ELSE Interp(SubSeq(d, 1, thr))        \* thr = 0: empty slice -> Err

---------------------------------------------------------------------------
(* adss::recover(shares)                                                   *)
\* (an empty plaintext "decrypts" correctly under every key: there is nothing to garble)
EmptyStr == <<"S", <<>>>>
Dec(k, slot, c) ==
  IF c[1] = "Enc" /\ c[3] = slot /\ (c[2] = k \/ c[4] = EmptyStr) THEN c[4] ELSE Junk(<<"dec", k, c>>)

AdssRecover(shares) ==
  IF shares = <<>> THEN [ok |-> FALSE, why |-> "no shares"]
  ELSE LET f == shares[1]                       \* threshold, C, D, J come from the FIRST share
           r == SharksRecover(f.thr, shares)
       IN IF ~r.ok THEN [ok |-> FALSE, why |-> "sharks"]
          ELSE IF r.val = <<"Empty">> THEN [ok |-> FALSE, why |-> "short key"]
          ELSE LET K == r.val
                   M == Dec(K, 1, f.C)
                   R == Dec(K, 2, f.D)
                   c == Sid(DefaultT, f.thr, M, R)     \* recover() always uses the default transcript
               IN IF Mac(c) = f.J THEN [ok |-> TRUE, sid |-> c] ELSE [ok |-> FALSE, why |-> "mac"]

---------------------------------------------------------------------------
(* What the properties demand of ANY recover (C01, C02, C05, C16), as a contract on its   *)
(* outcome — independent of which shares an implementation chooses to interpolate.         *)
(* AdssRecover above is the code-shaped reference; MC_Star checks that it meets the        *)
(* contract in every explored state, and conformance of the real code is judged against    *)
(* the contract (agreement with the reference is reported, not demanded).                  *)
(*   orig[i]    the sharing the i-th share was produced by                                 *)
(*   genuine[i] its point (x, y) is still the one its producer computed                    *)
(*   intact[i]  nothing in it was altered                                                  *)
GenuinePoints(shares, orig, genuine, s) ==
  {shares[i].x : i \in {j \in 1..Len(shares) : orig[j] = s /\ genuine[j]}}
\* recovery MAY succeed (and then must return the first share's sharing): the first share —
\* the one that supplies threshold, ciphertexts and tag — is intact, was made under the
\* default transcript with a threshold >= 1, and that many distinct genuine points of its
\* sharing are present
CanRecover(shares, orig, genuine, intact) ==
  /\ shares # <<>>
  /\ intact[1]
  /\ SidThr(orig[1]) >= 1 /\ SidT(orig[1]) = DefaultT
  /\ Cardinality(GenuinePoints(shares, orig, genuine, orig[1])) >= SidThr(orig[1])
\* recovery MUST succeed: in addition every share is intact and stems from that one sharing
MustRecover(shares, orig, genuine, intact) ==
  /\ CanRecover(shares, orig, genuine, intact)
  /\ \A i \in 1..Len(shares) : intact[i] /\ orig[i] = orig[1]
MeetsContract(o, shares, orig, genuine, intact) ==
  /\ o.ok => CanRecover(shares, orig, genuine, intact) /\ o.sid = orig[1]
  /\ MustRecover(shares, orig, genuine, intact) => o.ok

=============================================================================
