--------------------------- MODULE MC_WireFaults ---------------------------
(* Fault enumeration over the share / report layouts (C08, C09): a well-formed seed      *)
(* encoding, at most two composed faults from different classes, verdict computed by      *)
(* Wire.tla.  Every reachable string is emitted with its verdict and fed to the real      *)
(* decoders (and, for C09, to every consumer of foreign data).                            *)
EXTENDS Wire, TLC, Json

CONSTANTS Shapes,      \* set of seed shapes  <<k, lenC, lenD, lenTag>>
          MaxFaults

VARIABLES shape, bytes, log      \* log: sequence of applied faults
vars == <<shape, bytes, log>>

Elem(v) == <<v>> \o [i \in 1..23 |-> 0]                       \* canonical element with value v < 256
Pat(n, s) == [i \in 1..n |-> (s + 7 * i) % 251]
SeedSharks(k) == Elem(3) \o [i \in 1..(24 * k) |-> IF i % 24 = 1 THEN 5 + i \div 24 ELSE 0]
SeedAdss(sh) == EncLE32(2) \o StoreBytes(SeedSharks(sh[1])) \o StoreBytes(Pat(sh[2], 1)) \o StoreBytes(Pat(sh[3], 2)) \o Pat(64, 3)
SeedMsg(sh) == StoreBytes(Pat(9, 4)) \o StoreBytes(SeedAdss(sh)) \o StoreBytes(Pat(sh[4], 5))

\* offsets (0-based) of the length headers inside a message / share of this shape
MsgHdrs(sh) ==
  LET a == 4 + 9                       \* share header position
      s0 == a + 4                      \* start of adss share
      ls == 24 * (sh[1] + 1)
  IN [ct |-> 0, share |-> a, S |-> s0 + 4, C |-> s0 + 8 + ls, D |-> s0 + 12 + ls + sh[2],
      tag |-> s0 + 4 + 4 + ls + 4 + sh[2] + 4 + sh[3] + 64, x |-> s0 + 8, thr |-> s0]

SetAt(b, off, v) == [i \in 1..Len(b) |-> IF i > off /\ i <= off + Len(v) THEN v[i - off] ELSE b[i]]
TrueLen(b, off) == LE32(SubSeq(b, off + 1, off + 4))
HeaderVals(b, off) ==
  LET n == TrueLen(b, off)
      rest == Len(b) - off - 4
  IN { <<0,0,0,0>>, <<1,0,0,0>>, EncLE32(IF n = 0 THEN 0 ELSE n - 1), EncLE32(n + 1), EncLE32(rest), EncLE32(rest + 1),
       <<0,0,1,0>>, <<255,255,255,127>>, <<0,0,0,128>>, <<251,255,255,255>>, <<252,255,255,255>>, <<255,255,255,255>> }

NonCanon == <<164, 48>> \o [i \in 1..14 |-> 0] \o <<1>> \o [i \in 1..7 |-> 0]     \* p + 1
ExactlyP == <<163, 48>> \o [i \in 1..14 |-> 0] \o <<1>> \o [i \in 1..7 |-> 0]     \* p itself
PMinusOne == <<162, 48>> \o [i \in 1..14 |-> 0] \o <<1>> \o [i \in 1..7 |-> 0]    \* p - 1 (canonical)
HighLimb == <<1>> \o [i \in 1..22 |-> 0] \o <<1>>

FaultClass(f) == f[1]
Apply(b, sh, f) ==
  LET h == MsgHdrs(sh)
  IN CASE f[1] = "trunc"   -> Take(b, f[2])
       [] f[1] = "hdr"     -> SetAt(b, h[f[2]], f[3])
       [] f[1] = "noncanx" -> SetAt(b, h.x, NonCanon)
       [] f[1] = "highx"   -> SetAt(b, h.x, HighLimb)
       [] f[1] = "noncany" -> SetAt(b, h.x + 24, NonCanon)
       [] f[1] = "px"      -> SetAt(b, h.x, ExactlyP)
       [] f[1] = "py"      -> SetAt(b, h.x + 24, ExactlyP)
       [] f[1] = "pm1x"    -> SetAt(b, h.x, PMinusOne)
       [] f[1] = "thr"     -> SetAt(b, h.thr, f[2])
       [] f[1] = "trail"   -> b \o Pat(f[2], 9)
       [] f[1] = "flip"    -> SetAt(b, f[2], <<(b[f[2] + 1] + 128) % 256>>)

TruncPoints(b, sh) ==
  LET h == MsgHdrs(sh)
  IN {0, 1, 3, 4, 5, h.share, h.share + 3, h.share + 4, h.thr + 3, h.thr + 4, h.S, h.S + 3, h.x + 23, h.x + 24, h.x + 30,
      h.C, h.C + 4, h.D, h.D + 4, h.tag - 64, h.tag - 1, h.tag, h.tag + 3, Len(b) - 1} \cap (0..(Len(b) - 1))

Faults(b, sh) ==
  {<<"trunc", n>> : n \in TruncPoints(b, sh)}
  \cup {<<"hdr", fld, v>> : fld \in {"ct", "share", "S", "C", "D", "tag"}, v \in UNION {HeaderVals(b, MsgHdrs(sh)[fl]) : fl \in {"ct", "share", "S", "C", "D", "tag"}}}
  \cup {<<"noncanx">>, <<"highx">>, <<"px">>, <<"pm1x">>} \cup (IF sh[1] >= 1 THEN {<<"noncany">>, <<"py">>} ELSE {})
  \cup {<<"thr", <<0,0,0,0>>>>, <<"thr", <<255,255,255,255>>>>}
  \cup {<<"trail", 1>>, <<"trail", 24>>}
  \cup {<<"flip", MsgHdrs(sh).x + 16>>, <<"flip", MsgHdrs(sh).tag - 1>>}

Init == /\ shape \in Shapes /\ bytes = SeedMsg(shape) /\ log = <<>>
Next == /\ Len(log) < MaxFaults
        /\ \E f \in Faults(SeedMsg(shape), shape) :
              /\ \A i \in 1..Len(log) : FaultClass(log[i]) # FaultClass(f)
              /\ (f[1] = "trunc" => f[2] <= Len(bytes))
              /\ (f[1] \in {"hdr", "noncanx", "highx", "noncany", "px", "py", "pm1x", "thr", "flip"} => Len(bytes) >= MsgHdrs(shape).tag + 4)
              /\ bytes' = Apply(bytes, shape, f)
              /\ log' = Append(log, f)
        /\ UNCHANGED shape
Spec == Init /\ [][Next]_vars

\* the inner adss share as it would be extracted from the message bytes (when the outer
\* framing still allows it) is judged as well
Inner(b) == LET ct == LoadBytes(b) IN IF ~ct.ok THEN <<>> ELSE
            LET sb == LoadBytes(ct.rest) IN IF ~sb.ok THEN <<>> ELSE sb.data

Line == [msg |-> bytes, ok |-> IF DecMessage(bytes).ok THEN 1 ELSE 0,
         canon |-> IF DecMessage(bytes).ok THEN DecMessage(bytes).canon ELSE <<>>,
         inner |-> Inner(bytes), iok |-> IF DecAdss(Inner(bytes)).ok THEN 1 ELSE 0,
         icanon |-> IF DecAdss(Inner(bytes)).ok THEN DecAdss(Inner(bytes)).canon ELSE <<>>,
         faults |-> [i \in 1..Len(log) |-> log[i][1]]]
EmitInv == PrintT(<<"WIRE", ToJson(Line)>>)

\* sanity of the model: the unfaulted seed is accepted and canonical; truncation never accepted
\* with a different canonical form than a prefix rule allows
SeedOK == log = <<>> => (DecMessage(bytes).ok /\ DecMessage(bytes).canon = bytes)
CanonIdempotent == DecMessage(bytes).ok => DecMessage(DecMessage(bytes).canon) = DecMessage(bytes)

ShapesQ == {<<1, 32, 32, 32>>, <<0, 0, 1, 0>>}
ShapesT == {<<1, 32, 32, 32>>, <<0, 0, 1, 0>>, <<2, 1, 0, 32>>}
=============================================================================
