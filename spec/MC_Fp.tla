------------------------------- MODULE MC_Fp -------------------------------
(* Self-checks of Fp129.tla (no code involved): the limb algorithms against TLC's  *)
(* native integers on small values, and ring axioms on a lattice of 129-bit values *)
(* around 0, 2^64, 2^128, (p-1)/2 and p.                                           *)
EXTENDS Fp129, TLC

RECURSIVE ToInt(_)
ToInt(a) == IF a = <<>> THEN 0 ELSE a[1] + B * ToInt(Tail(a))

SmallVals == {0, 1, 2, 255, 256, 257, 511, 512, 1000, 12451, 32767, 65535, 65536, 40000}
NativeOK ==
  \A x, y \in SmallVals :
     /\ ToInt(Add(Small(x), Small(y))) = x + y
     /\ (x >= y => ToInt(Sub(Small(x), Small(y))) = x - y)
     /\ ((x < 46000 /\ y < 46000) => ToInt(Mul(Small(x), Small(y))) = x * y)
     /\ (Less(Small(x), Small(y)) <=> x < y)
     /\ ToInt(HalfOf(Small(x))) = x \div 2

Pow2(k) == [i \in 1..(k \div 8) |-> 0] \o <<2^(k % 8)>>
Lattice ==
  LET base == {Zero, One, Two, Small(12450), Small(12451), Small(12452),
               Sub(Pow2(64), One), Pow2(64), Add(Pow2(64), One),
               Sub(Pow2(128), One), Pow2(128), Add(Pow2(128), One),
               HalfP, Add(HalfP, One), Sub(P, Two), PMinus1}
  IN base
RingOK ==
  \A a, b \in Lattice :
     /\ IsElem(a)
     /\ FAdd(a, b) = FAdd(b, a) /\ FMul(a, b) = FMul(b, a)
     /\ FSub(FAdd(a, b), b) = a
     /\ FAdd(a, FNeg(a)) = Zero
     /\ FMul(a, One) = a /\ FMul(a, Zero) = Zero
     /\ IsElem(FMul(a, b)) /\ IsElem(FAdd(a, b))
     /\ FMul(a, FAdd(b, One)) = FAdd(FMul(a, b), a)          \* distributivity
     /\ FMul(FNeg(a), b) = FNeg(FMul(a, b))
DistribOK ==
  \A a, b, c \in {Two, Sub(Pow2(64), One), Add(Pow2(128), One), HalfP, PMinus1, Small(12452)} :
     /\ FMul(a, FAdd(b, c)) = FAdd(FMul(a, b), FMul(a, c))
     /\ FMul(FMul(a, b), c) = FMul(a, FMul(b, c))
\* Fermat: a^(p-1) = 1, and p-1 = 2 * HalfP
FermatOK ==
  /\ Add(HalfP, HalfP) = PMinus1
  /\ \A a \in {Two, Small(3), Small(12451), Pow2(64), PMinus1} : FPow(a, PMinus1) = One
  /\ FPow(PMinus1, HalfP) = PMinus1        \* -1 is a non-residue since (p-1)/2 is odd
  /\ FPow(Two, HalfP) = PMinus1            \* 2 is a non-residue (and a generator)
  /\ FPow(Small(3), HalfP) = One           \* 3 is a quadratic residue: NOT a generator

\* (evaluated as invariants of a second state: TLC's worker threads honour -Xss, its main
\*  thread, which evaluates ASSUMEs and initial states, does not)
VARIABLE x
Spec == x = 0 /\ [][x = 0 /\ x' = 1]_x
InvNative == x = 1 => NativeOK
InvRing == x = 1 => RingOK
InvDistrib == x = 1 => DistribOK
InvFermat == x = 1 => FermatOK
=============================================================================
