------------------------------- MODULE Fp129 -------------------------------
(***************************************************************************)
(* Big-integer arithmetic modulo p = 2^128 + 12451 in pure TLA+, so that   *)
(* TLC can serve as the independent implementation the field properties    *)
(* (C06, C07) ask for.  TLC integers are 32-bit, hence numbers are         *)
(* little-endian sequences of base-256 digits ("limbs"), normalised (no    *)
(* trailing zero limb; zero is <<>>).  Every intermediate value stays      *)
(* below 2^31: a column sum of a 17x17-limb product is < 17 * 255^2 + carry.*)
(***************************************************************************)
EXTENDS Naturals, Sequences

B == 256

RECURSIVE Norm(_)
Norm(a) == IF a = <<>> THEN <<>>
           ELSE IF a[Len(a)] = 0 THEN Norm(SubSeq(a, 1, Len(a) - 1)) ELSE a

Digit(a, i) == IF i <= Len(a) THEN a[i] ELSE 0
Max(x, y) == IF x >= y THEN x ELSE y

\* a + b
RECURSIVE AddC(_, _, _, _)
AddC(a, b, i, c) ==
  IF i > Max(Len(a), Len(b)) THEN (IF c = 0 THEN <<>> ELSE <<c>>)
  ELSE LET s == Digit(a, i) + Digit(b, i) + c
       IN <<s % B>> \o AddC(a, b, i + 1, s \div B)
Add(a, b) == Norm(AddC(a, b, 1, 0))

\* a < b, a = b on normalised numbers
RECURSIVE LessFrom(_, _, _)
LessFrom(a, b, i) ==           \* compare digits i, i-1, ..., 1 (equal lengths)
  IF i = 0 THEN FALSE
  ELSE IF a[i] # b[i] THEN a[i] < b[i] ELSE LessFrom(a, b, i - 1)
Less(a, b) == IF Len(a) # Len(b) THEN Len(a) < Len(b) ELSE LessFrom(a, b, Len(a))
Leq(a, b) == a = b \/ Less(a, b)

\* a - b for a >= b
RECURSIVE SubC(_, _, _, _)
SubC(a, b, i, bw) ==
  IF i > Len(a) THEN <<>>
  ELSE LET d == Digit(a, i) - Digit(b, i) - bw + B       \* in 0 .. 2B-1, kept non-negative
       IN <<d % B>> \o SubC(a, b, i + 1, IF d < B THEN 1 ELSE 0)
Sub(a, b) == Norm(SubC(a, b, 1, 0))

\* a * b (schoolbook, column by column)
RECURSIVE ColSum(_, _, _, _)
ColSum(a, b, k, i) ==          \* sum over i' >= i of a[i'] * b[k + 1 - i']
  IF i > Len(a) \/ i > k THEN 0
  ELSE (IF k + 1 - i <= Len(b) THEN a[i] * b[k + 1 - i] ELSE 0) + ColSum(a, b, k, i + 1)
RECURSIVE MulC(_, _, _, _)
MulC(a, b, k, c) ==
  IF k > Len(a) + Len(b) THEN (IF c = 0 THEN <<>> ELSE <<c % B>> \o MulC(a, b, k, c \div B))
  ELSE LET s == ColSum(a, b, k, Max(1, k + 1 - Len(b))) + c
       IN <<s % B>> \o MulC(a, b, k + 1, s \div B)
Mul(a, b) == IF a = <<>> \/ b = <<>> THEN <<>> ELSE Norm(MulC(a, b, 1, 0))

\* small constants
Small(n) == Norm(<<n % B, (n \div B) % B, (n \div (B * B)) % B, n \div (B * B * B)>>)
Zero == <<>>
One == <<1>>
Two == <<2>>

\* split at 2^128 (16 limbs)
Lo128(a) == Norm(SubSeq(a, 1, IF Len(a) < 16 THEN Len(a) ELSE 16))
Hi128(a) == IF Len(a) <= 16 THEN <<>> ELSE SubSeq(a, 17, Len(a))

---------------------------------------------------------------------------
(* The field                                                               *)
C12451 == Small(12451)
P == Add(<<0,0,0,0,0,0,0,0,0,0,0,0,0,0,0,0,1>>, C12451)       \* 2^128 + 12451
PMinus1 == Sub(P, One)

IsElem(a) == a = Norm(a) /\ Less(a, P) /\ \A i \in 1..Len(a) : a[i] \in 0..(B - 1)

\* x mod p for x < p^2, using 2^128 = -12451 (mod p) twice
RECURSIVE FinalSub(_)
FinalSub(v) == IF Less(v, P) THEN v ELSE FinalSub(Sub(v, P))
Reduce(x) ==
  LET lo  == Lo128(x)
      chi == Mul(C12451, Hi128(x))          \* < 2^146
      lo2 == Lo128(chi)
      t1  == Add(lo, Mul(C12451, Hi128(chi)))     \* x = lo - lo2 + c * hi2  (mod p)
      v   == IF Leq(lo2, t1) THEN Sub(t1, lo2) ELSE Sub(Add(t1, P), lo2)
  IN FinalSub(v)

FAdd(a, b) == LET s == Add(a, b) IN IF Less(s, P) THEN s ELSE Sub(s, P)
FSub(a, b) == IF Leq(b, a) THEN Sub(a, b) ELSE Sub(Add(a, P), b)
FNeg(a) == IF a = Zero THEN Zero ELSE Sub(P, a)
FDouble(a) == FAdd(a, a)
FMul(a, b) == Reduce(Mul(a, b))
FSquare(a) == FMul(a, a)

\* a^e for a big-integer exponent e (square and multiply, least significant bit first)
RECURSIVE Half(_, _, _)
Half(a, i, carry) ==            \* floor(a / 2), processing limbs from the top
  IF i = 0 THEN <<>>
  ELSE LET v == carry * B + a[i] IN Half(a, i - 1, v % 2) \o <<v \div 2>>
HalfOf(a) == Norm(Half(a, Len(a), 0))
IsOdd(a) == a # <<>> /\ a[1] % 2 = 1
RECURSIVE FPow(_, _)
FPow(a, e) == IF e = <<>> THEN One
              ELSE LET h == FPow(FSquare(a), HalfOf(e))
                   IN IF IsOdd(e) THEN FMul(a, h) ELSE h

\* 24-byte little-endian encodings
FromRepr(b) ==      \* b: 24 bytes; <<"none">> unless it is the encoding of an integer below p
  LET v == Norm(b)
  IN IF Len(b) = 24 /\ Less(v, P) THEN <<"some", v>> ELSE <<"none">>
ToRepr(a) == a \o [i \in 1..(24 - Len(a)) |-> 0]

HalfP == HalfOf(PMinus1)                 \* (p-1)/2 = 2^127 + 6225, a prime (trusted, see DESIGN)
IsResidue(a) == a = Zero \/ FPow(a, HalfP) = One
=============================================================================
