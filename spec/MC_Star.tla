------------------------------ MODULE MC_Star ------------------------------
(* Scenario machine over Star.tla / Adss.tla: a fixed population of clients, an        *)
(* adversary-ordered inbox of their shares (repetition allowed, at most one altered     *)
(* share), recovery evaluated in every state.  Used for C01, C02, C05, C16, C17 and,   *)
(* through the knowledge closure, C02/C03.  Every state is emitted with the predicted  *)
(* outcome and replayed into the real crates.                                          *)
EXTENDS Star, TLC, Json

CONSTANTS Clients,     \* sequence of client records [m, e, t, aux, src]
          MaxLen,      \* bound on the inbox length
          Faults,      \* fault kinds the adversary may apply (to at most one inbox entry)
          FreshNonce   \* TRUE: the payload cipher uses a per-report nonce; FALSE: constant

VARIABLE inbox         \* sequence of [c |-> client index, f |-> fault kind or "none"]
vars == <<inbox>>

NC == Len(Clients)
NonceOf(c) == IF FreshNonce THEN c ELSE 0
Rep(c) == ReportOf(Clients[c], c, NonceOf(c))        \* share point id = client id (fresh per client)

SameGroup(a, b) == SidOf(Clients[a]) = SidOf(Clients[b])
\* the point of "another share of the same sharing" (the cyclically next client of the group)
OtherInGroup(c) ==
  LET S == {d \in 1..NC : d # c /\ SameGroup(c, d)}
  IN IF S = {} THEN c ELSE IF \E d \in S : d > c THEN CHOOSE d \in S : d > c /\ \A d2 \in S : d2 > c => d <= d2
                          ELSE CHOOSE d \in S : \A d2 \in S : d <= d2

ApplyFault(sh, c, f) ==
  CASE f = "none"  -> sh
    [] f = "thr-"  -> [sh EXCEPT !.thr = IF @ = 0 THEN 0 ELSE @ - 1]
    [] f = "thr0"  -> [sh EXCEPT !.thr = 0]
    [] f = "thr+"  -> [sh EXCEPT !.thr = @ + 1]
    [] f = "xdup"  -> [sh EXCEPT !.x = OtherInGroup(c)]
    [] f = "xnew"  -> [sh EXCEPT !.x = 100 + c]
    [] f = "y"     -> [sh EXCEPT !.y = << <<"Bad", "y", c>> >>]
    [] f = "dropy" -> [sh EXCEPT !.y = <<>>]
    [] f = "C"     -> [sh EXCEPT !.C = <<"Bad", "C", c>>]
    [] f = "D"     -> [sh EXCEPT !.D = <<"Bad", "D", c>>]
    [] f = "J"     -> [sh EXCEPT !.J = <<"Bad", "J", c>>]

\* a fault that does not change the share is not a fault
Effective(c, f) == f = "none" \/ ApplyFault(Rep(c).share, c, f) # Rep(c).share

SharesOf(ib) == [i \in 1..Len(ib) |-> ApplyFault(Rep(ib[i].c).share, ib[i].c, ib[i].f)]
Outcome(ib) == AdssRecover(SharesOf(ib))

Init == inbox = <<>>
Deliver(c, f) ==
  /\ Len(inbox) < MaxLen
  /\ f # "none" => (\A i \in 1..Len(inbox) : inbox[i].f = "none") /\ Effective(c, f)
  /\ inbox' = Append(inbox, [c |-> c, f |-> f])
Next == \E c \in 1..NC, f \in Faults \cup {"none"} : Deliver(c, f)
Spec == Init /\ [][Next]_vars

---------------------------------------------------------------------------
Honest(i) == inbox[i].f = "none"
\* (two degenerate alterations change nothing that is authenticated or used: the x of a
\*  threshold-<=1 share — the polynomial is constant — and the y of a sharing whose message and
\*  coins are both empty — nothing is encrypted under the shared key)
DegenerateFault(i) ==
  LET s == SidOf(Clients[inbox[i].c])
  IN \/ inbox[i].f \in {"xdup", "xnew"} /\ SidThr(s) <= 1
     \/ inbox[i].f = "y" /\ SidM(s) = EmptyStr /\ SidR(s) = EmptyStr
\* the share's point (x, y) is the one its client produced (faults on thr / C / D / J leave it alone)
PointHonest(i) == inbox[i].f \in {"none", "thr-", "thr0", "thr+", "C", "D", "J"} \/ DegenerateFault(i)
DistinctOf(s) == {inbox[i].c : i \in {j \in 1..Len(inbox) : PointHonest(j) /\ SidOf(Clients[inbox[j].c]) = s}}
Represented == {SidOf(Clients[inbox[i].c]) : i \in 1..Len(inbox)}
AllHonest == \A i \in 1..Len(inbox) : Honest(i)

\* C01: enough distinct honest shares of one sharing, nothing else in the inbox => recovery
\* succeeds, returns that sharing, and every report of the group opens to its own payload
ThresholdRecovery ==
  (inbox # <<>> /\ AllHonest /\ Cardinality(Represented) = 1) =>
     LET s == SidOf(Clients[inbox[1].c])
         o == Outcome(inbox)
     IN (SidThr(s) >= 1 /\ SidT(s) = DefaultT /\ Cardinality(DistinctOf(s)) >= SidThr(s)) =>
          /\ o.ok /\ o.sid = s
          /\ \A c \in 1..NC : (SidOf(Clients[c]) = s /\ Clients[c].src \in {"local", "oprf"}) =>
               PayDec(Ske(SidM(o.sid), Clients[c].e), Rep(c).ct) = Payload(Clients[c].m, Clients[c].aux)

\* C02: recovery never returns a sharing of which fewer than t distinct shares are present,
\* and fails outright when no represented sharing reaches its own threshold
NoSubThresholdRecovery ==
  LET o == Outcome(inbox)
  IN /\ o.ok => Cardinality(DistinctOf(o.sid)) >= SidThr(o.sid) /\ SidThr(o.sid) >= 1
     /\ (\A s \in Represented : Cardinality(DistinctOf(s)) < SidThr(s) \/ SidThr(s) = 0) => ~o.ok

\* C05: the result is an error or exactly the sharing of the first share, which must be unaltered
AuthenticatedRecovery ==
  LET o == Outcome(inbox)
  IN o.ok => /\ o.sid = SidOf(Clients[inbox[1].c])
             /\ (Honest(1) \/ DegenerateFault(1))

\* C16: shares created under a custom transcript are rejected by recover()
TranscriptSeparation ==
  (inbox # <<>> /\ SidT(SidOf(Clients[inbox[1].c])) # DefaultT) => ~Outcome(inbox).ok

ZeroThresholdNeverRecovers ==
  (inbox # <<>> /\ SharesOf(inbox)[1].thr = 0) => ~Outcome(inbox).ok

\* the same obligations packaged as the contract the real code is judged against
Orig == [i \in 1..Len(inbox) |-> SidOf(Clients[inbox[i].c])]
Genuine == [i \in 1..Len(inbox) |-> PointHonest(i)]
Intact == [i \in 1..Len(inbox) |-> Honest(i) \/ DegenerateFault(i)]
CanOk == CanRecover(SharesOf(inbox), Orig, Genuine, Intact)
MustOk == MustRecover(SharesOf(inbox), Orig, Genuine, Intact)
ReferenceMeetsContract == inbox # <<>> => MeetsContract(Outcome(inbox), SharesOf(inbox), Orig, Genuine, Intact)

Inv == /\ ReferenceMeetsContract
       /\ ThresholdRecovery /\ NoSubThresholdRecovery /\ AuthenticatedRecovery
       /\ ZeroThresholdNeverRecovers /\ TranscriptSeparation

---------------------------------------------------------------------------
(* Secrecy (C02, C03): for every observation set the closure reveals no secret of a     *)
(* client whose sharing is below threshold in that set.                                 *)
Epochs == {Clients[c].e : c \in 1..NC}
BelowThreshold(obsC, c) ==
  LET s == SidOf(Clients[c])
  IN Cardinality({d \in obsC : SidOf(Clients[d]) = s}) < (IF SidThr(s) = 0 THEN 1 ELSE SidThr(s))
\* clients whose measurement the adversary learns anyway from another (above-threshold) group
\* are excluded: the measurement determines everything in STARLite
LearnsM(K, c) == Clients[c].m \in K
SubThresholdSecrecy ==
  \A obsC \in SUBSET (1..NC) :
     LET K == Know({Rep(c) : c \in obsC}, Epochs)
     IN \A c \in obsC : (BelowThreshold(obsC, c) /\ Clients[c].src = "local" /\
                         ~\E d \in obsC : Clients[d].m = Clients[c].m /\ ~BelowThreshold(obsC, d))
                           => SecretsOf(Clients[c]) \cap K = {}
NoXorLeak ==
  \A obsC \in SUBSET (1..NC) :
     LET K == Know({Rep(c) : c \in obsC}, Epochs)
     IN \A c, d \in obsC : (BelowThreshold(obsC, c) /\ BelowThreshold(obsC, d)) =>
           <<"Xor", Rep(c).ct[4], Rep(d).ct[4]>> \notin K

---------------------------------------------------------------------------
(* emission *)
GroupIndex(o) == IF ~o.ok THEN 0
                 ELSE IF \E c \in 1..NC : SidOf(Clients[c]) = o.sid
                        THEN CHOOSE c \in 1..NC : SidOf(Clients[c]) = o.sid /\ \A d \in 1..NC : SidOf(Clients[d]) = o.sid => c <= d
                        ELSE 0
Line ==
  LET o == Outcome(inbox)
  IN [ib |-> [i \in 1..Len(inbox) |-> <<inbox[i].c, inbox[i].f>>],
      ok |-> IF o.ok THEN 1 ELSE 0,            \* the reference model's outcome
      grp |-> GroupIndex(o),
      canok |-> IF CanOk THEN 1 ELSE 0,        \* the contract: may succeed (with the first share's sharing)
      mustok |-> IF MustOk THEN 1 ELSE 0,      \*               must succeed
      first |-> GroupIndex([ok |-> TRUE, sid |-> SidOf(Clients[inbox[1].c])]),
      \* the sharings that reach their own threshold in this collection (a wrapper that tries the
      \* sharings of a mixed collection one after the other may return the key of any of them)
      reach |-> LET RS == {s \in Represented : SidThr(s) >= 1 /\ SidT(s) = DefaultT /\ Cardinality(DistinctOf(s)) >= SidThr(s)}
                    GS == {GroupIndex([ok |-> TRUE, sid |-> s]) : s \in RS}
                    RECURSIVE SeqOf(_)
                    SeqOf(T) == IF T = {} THEN <<>> ELSE LET m == CHOOSE a \in T : \A b \in T : a <= b IN <<m>> \o SeqOf(T \ {m})
                IN SeqOf(GS)]
EmitInv == inbox # <<>> => PrintT(<<"RECOVER", ToJson(Line)>>)
---------------------------------------------------------------------------
(* client populations *)
Cl(m, e, t, aux, src) == [m |-> Str(m), e |-> Str(e), t |-> t, aux |-> aux, src |-> src]
\* a threshold-2 group, a threshold-3 group of the same measurement (differs in the threshold
\* only; four clients, so that a repeated share can sit among the first three), another measurement
Clients_Q ==
  << Cl(<<1>>, <<1>>, 2, NoAux, "local"),
     Cl(<<1>>, <<1>>, 2, Aux(<<>>), "local"),
     Cl(<<1>>, <<1>>, 3, Aux(<<1, 2>>), "local"),
     Cl(<<1>>, <<1>>, 3, NoAux, "local"),
     Cl(<<1>>, <<1>>, 3, Aux(<<2>>), "local"),
     Cl(<<1>>, <<1>>, 3, Aux(<<1>>), "local"),
     Cl(<<2>>, <<1>>, 2, Aux(<<2, 2>>), "local") >>
\* thresholds 1 and 3, an epoch-only difference, the randomness-server source, threshold 0
Clients_T ==
  << Cl(<<1>>, <<1>>, 3, NoAux, "local"),
     Cl(<<1>>, <<1>>, 3, Aux(<<1>>), "local"),
     Cl(<<1>>, <<1>>, 3, Aux(<<>>), "local"),
     Cl(<<1>>, <<1>>, 3, Aux(<<2, 2>>), "local"),
     Cl(<<1>>, <<2>>, 3, NoAux, "local"),
     Cl(<<>>, <<>>, 1, Aux(<<2, 1>>), "local"),
     Cl(<<1>>, <<1>>, 2, NoAux, "oprf"),
     Cl(<<1>>, <<1>>, 2, Aux(<<1, 1>>), "oprf"),
     Cl(<<2>>, <<1>>, 0, NoAux, "local") >>
\* direct ADSS use (C16): thresholds 0..3, empty message / coins, a custom transcript
Clients_A ==
  << Cl(<<1>>, <<2>>, 2, NoAux, "adss"),
     Cl(<<1>>, <<2>>, 2, NoAux, "adss"),
     Cl(<<1>>, <<2>>, 2, NoAux, "adss"),
     Cl(<<>>, <<>>, 1, NoAux, "adss"),
     Cl(<<1>>, <<2>>, 3, NoAux, "adss"),
     Cl(<<1>>, <<1>>, 2, NoAux, "adss"),
     Cl(<<1>>, <<2>>, 0, NoAux, "adss"),
     Cl(<<1>>, <<2>>, 2, NoAux, "adssT"),
     Cl(<<1>>, <<2>>, 2, NoAux, "adssT") >>
AllFaults == {"thr-", "thr0", "thr+", "xdup", "xnew", "y", "dropy", "C", "D", "J"}
NoFaults == {}

CfgLine == [clients |-> [c \in 1..NC |-> Clients[c]], maxlen |-> MaxLen,
            other |-> [c \in 1..NC |-> OtherInGroup(c)],
            group |-> [c \in 1..NC |-> CHOOSE d \in 1..NC : SameGroup(c, d) /\ \A d2 \in 1..NC : SameGroup(c, d2) => d <= d2]]
ASSUME PrintT(<<"STARCFG", ToJson(CfgLine)>>)
=============================================================================
