---------------------------- MODULE MC_GGM_Ind ----------------------------
EXTENDS GGM_Ind
ConstInit8 == Depth = 8
ConstInit4 == Depth = 4
\* initial predicate for the inductive step: any state satisfying the invariant
IndInit == IndInv
\* a terminated run is reported as a deadlock by Apalache: allow stuttering
NextS == Next \/ UNCHANGED <<retained, punctured>>
=============================================================================
