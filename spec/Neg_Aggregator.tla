--------------------------- MODULE Neg_Aggregator ---------------------------
(* NEGATIVE model (must be refuted): the threshold filter uses > instead of >=. *)
EXTENDS Aggregator
NegFilter == /\ phase = "filter"
             /\ todo' = {g \in Groups : Len(buckets[g]) > Threshold}
             /\ phase' = "map" /\ UNCHANGED <<pending, buckets, busy, out>>
NegNext == \/ \E r \in Reports : Collect(r)
           \/ EndCollect \/ NegFilter \/ Join
           \/ \E w \in Workers : Finish(w) \/ \E g \in Groups : Take(w, g)
NegSpec == Init /\ [][NegNext]_vars
NegSizes == <<1, 2, 3>>
NegW == {1, 2}
=============================================================================
