---------------------------- MODULE MC_PPOPRF ----------------------------
(* Model-checking harness for PPOPRF.tla (C14): constants, set-level VIEW and the   *)
(* per-state successor/observation table replayed into the real ppoprf::Server.     *)
EXTENDS PPOPRF, TLC, Json

Tags6    == {0, 1, 2, 127, 128, 255}
RegA     == {0, 1, 128, 255}
RegB     == {1, 2, 255}
Tags4    == {0, 1, 128, 255}
RegA3    == {0, 1, 255}
RegB2    == {1, 128}

SetToSeq(S) == LET RECURSIVE F(_) F(T) == IF T = {} THEN <<>> ELSE LET m == CHOOSE a \in T : \A b \in T : a <= b IN <<m>> \o F(T \ {m}) IN F(S)

InstView(s) == <<s.key, s.pk, {s.pf[i] : i \in 1..Len(s.pf)}, PunctOf(s)>>
SetView == [i \in 1..Len(srv) |-> InstView(srv[i])]

InstKey(s) == <<s.key, SetToSeq(PunctOf(s))>>
TagSeq == SetToSeq(Tags)

KeyOf(sv) == [i \in 1..Len(sv) |-> InstKey(sv[i])]
Room == Len(srv) < MaxInst
SuccLines ==
  LET pn == [i \in 1..Len(srv) |-> [j \in 1..Len(TagSeq) |->
               [a |-> "P", i |-> i, t |-> TagSeq[j],
                ok |-> IF PunctureRes(srv[i], TagSeq[j]).ok THEN 1 ELSE 0,
                S |-> KeyOf(PunctureSt(srv, i, TagSeq[j]))]]]
      cl == [i \in 1..Len(srv) |-> [a |-> "C", i |-> i, t |-> 0, ok |-> 1, S |-> KeyOf(CloneSt(srv, i))]]
      xi == [i \in 1..Len(srv) |-> [a |-> "X", i |-> i, t |-> 0, ok |-> 1, S |-> KeyOf(ExpImpSt(srv, i))]]
      sy == [k \in 1..(Len(srv) * Len(srv)) |->
               LET i == ((k - 1) \div Len(srv)) + 1  j == ((k - 1) % Len(srv)) + 1
               IN [a |-> "S", i |-> i, t |-> j, ok |-> IF i = j THEN 0 ELSE 1,
                   S |-> IF i = j THEN KeyOf(srv) ELSE KeyOf(SyncSt(srv, i, j))]]
      nw == IF \A i \in 1..Len(srv) : srv[i].key # 2
              THEN << [a |-> "N", i |-> 0, t |-> 0, ok |-> 1, S |-> KeyOf(NewOtherSt(srv))] >> ELSE <<>>
      RECURSIVE Flat(_)
      Flat(ss) == IF ss = <<>> THEN <<>> ELSE Head(ss) \o Flat(Tail(ss))
  IN Flat(pn) \o sy \o (IF Room THEN cl \o xi \o nw ELSE <<>>)

StateLine ==
  [ S    |-> KeyOf(srv),
    ans  |-> [i \in 1..Len(srv) |-> SetToSeq({md \in Tags : Answers(srv[i], md)})],
    reg  |-> [i \in 1..Len(srv) |-> SetToSeq(srv[i].pk.mds)],
    tags |-> TagSeq,
    succ |-> SuccLines ]

\* (TLC also evaluates invariants on successors outside the CONSTRAINT, once per generation;
\*  those boundary states are never expanded, so they are not emitted)
EmitInv == (steps <= MaxSteps) => PrintT(<<"SRVSTATE", ToJson(StateLine)>>)

\* C12 / client algebra, all small configurations (state independent, checked once)
ObliviousAll ==
  \A i \in 1..Len(srv) : \A md \in Tags : \A x \in 1..3 : \A r \in 1..3 :
     Oblivious(srv[i], x, md, r) /\ BlindHides(x, r)
=============================================================================
