----------------------------- MODULE Trace_Field -----------------------------
(* Binding C for C07: every event is one call of a star_sharks::Fp operation with   *)
(* operands and result as base-256 limbs; TLC recomputes it with Fp129.tla.         *)
EXTENDS Fp129, TLC, Json, IOUtils

Recs == ndJsonDeserialize(IOEnv.TRACE)
VARIABLE l
IsEv(name) == l <= Len(Recs) /\ Recs[l].ev = name /\ l' = l + 1

BinOp(op, a, b) == CASE op = "add" -> FAdd(a, b) [] op = "sub" -> FSub(a, b) [] op = "mul" -> FMul(a, b)
UnOp(op, a) == CASE op = "neg" -> FNeg(a) [] op = "double" -> FDouble(a) [] op = "square" -> FSquare(a)

TBin == IsEv("bin") /\ LET r == Recs[l] IN IsElem(r.a) /\ IsElem(r.b) /\ IsElem(r.r) /\ r.r = BinOp(r.op, r.a, r.b)
TUn  == IsEv("un")  /\ LET r == Recs[l] IN IsElem(r.a) /\ IsElem(r.r) /\ r.r = UnOp(r.op, r.a)
\* inversion: None exactly for zero, otherwise a * r = 1 (the inverse is unique)
TInv == IsEv("inv") /\ LET r == Recs[l] IN
          /\ IsElem(r.a)
          /\ (r.some = 0) = (r.a = Zero)
          /\ r.some = 1 => (IsElem(r.r) /\ FMul(r.a, r.r) = One)
TPow == IsEv("pow") /\ LET r == Recs[l] IN IsElem(r.a) /\ IsElem(r.r) /\ r.r = FPow(r.a, r.e)
\* square root: r * r = a when returned; None exactly for non-residues (Euler's criterion)
TSqrt == IsEv("sqrt") /\ LET r == Recs[l] IN
          /\ IsElem(r.a)
          /\ r.some = 1 => (IsElem(r.r) /\ FSquare(r.r) = r.a)
          /\ (r.some = 1) = IsResidue(r.a)
\* cheap variant used for bulk events: only checks a returned root
TSqrtOk == IsEv("sqrtok") /\ LET r == Recs[l] IN IsElem(r.a) /\ IsElem(r.r) /\ FSquare(r.r) = r.a
\* decoding of 24 bytes: accepted iff the integer is below p; re-encoding is the input
TFrom == IsEv("from") /\ LET r == Recs[l]
                             d == FromRepr(r.bytes)
                         IN /\ (r.some = 1) = (d[1] = "some")
                            /\ r.some = 1 => (r.r = d[2] /\ r.back = r.bytes)
\* the share decoder accepts a 24-byte coordinate exactly when it is a canonical encoding,
\* and re-encodes what it accepted unchanged
TShareDec == IsEv("sharedec") /\ LET r == Recs[l] IN
               /\ (r.some = 1) = (FromRepr(r.bytes)[1] = "some")
               /\ r.some = 1 => r.back = r.whole
TTo == IsEv("to") /\ LET r == Recs[l] IN IsElem(r.a) /\ r.bytes = ToRepr(r.a)

\* the published constants (ff::PrimeField)
TConst == IsEv("consts") /\ LET r == Recs[l] IN
  /\ r.modulus = P                                   \* MODULUS string parsed by the recorder
  /\ r.num_bits = 129 /\ r.capacity = 128
  /\ FMul(Two, r.two_inv) = One
  /\ r.s = 1 /\ IsOdd(HalfP)                          \* p - 1 = 2^1 * odd
  \* generator: p - 1 = 2q with q prime, so g generates iff g^2 # 1 and g^q # 1
  /\ FSquare(r.generator) # One /\ FPow(r.generator, HalfP) # One
  /\ r.root_of_unity = FPow(r.generator, HalfP)        \* g^((p-1)/2^S)
  /\ r.root_of_unity = PMinus1                         \* the primitive 2nd root of unity is -1
  /\ FMul(r.root_of_unity, r.root_of_unity_inv) = One
  /\ r.delta = FSquare(r.generator)                    \* g^(2^S)
  /\ r.zero = Zero /\ r.one = One

TraceNext == TShareDec \/ TBin \/ TUn \/ TInv \/ TPow \/ TSqrt \/ TSqrtOk \/ TFrom \/ TTo \/ TConst
TraceSpec == l = 1 /\ [][TraceNext]_l

Accepted ==
  LET d == TLCGet("stats").diameter
  IN IF d = Len(Recs) + 1 THEN TRUE
     ELSE /\ PrintT(<<"REJECTED", ToJson([at |-> d, ev |-> Recs[d]])>>)
          /\ FALSE
=============================================================================
