----------------------------- MODULE Trace_Wire -----------------------------
(* Binding C for C08 / C15: every event is one call of a real decoder on a byte string   *)
(* (honest encodings, all their prefixes, byte/bit faults, splices, random strings); TLC  *)
(* parses the same bytes with Wire.tla: whatever the real decoder accepts must be         *)
(* well-formed for the parser and re-encode to the parser's canonical form; honest        *)
(* encodings must be accepted and round-trip.                                             *)
EXTENDS Wire, TLC, Json, IOUtils

Recs == ndJsonDeserialize(IOEnv.TRACE)
VARIABLE l
IsEv(name) == l <= Len(Recs) /\ Recs[l].ev = name /\ l' = l + 1

\* a panic of the real decoder is logged as ok = 0 here and reported under C09
TDecode ==
  /\ IsEv("Decode")
  /\ LET r == Recs[l]
         d == Decode(r.dec, r.bytes)
     IN /\ r.ok = 1 => (d.ok /\ r.reenc = d.canon)      \* accepted => well-formed, canonical re-encoding
        \* (refusing an input that is not an honest encoding is always allowed; agreement of the
        \*  verdicts is counted in TLC register 1 and reported)
        \* the encoding of a value the decoder itself returned must decode again, unchanged
        /\ r.must = 1 => (r.ok = 1 /\ r.reenc = r.bytes)
        /\ TLCSet(1, TLCGet(1) + (IF (r.ok = 1) = d.ok THEN 1 ELSE 0))

\* an honest value: its encoding is accepted and is its own canonical form
THonest ==
  /\ IsEv("Honest")
  /\ LET r == Recs[l]
         d == Decode(r.dec, r.bytes)
     IN d.ok /\ d.canon = r.bytes /\ r.roundtrip = 1

TraceNext == TDecode \/ THonest
TraceSpec == (l = 1 /\ TLCSet(1, 0)) /\ [][TraceNext]_l

Accepted ==
  LET d == TLCGet("stats").diameter
  IN IF d = Len(Recs) + 1 THEN PrintT(<<"AGREE", TLCGet(1), Cardinality({i \in 1..Len(Recs) : Recs[i].ev = "Decode"})>>)
     ELSE /\ PrintT(<<"REJECTED", ToJson([at |-> d, ev |-> [ev |-> Recs[d].ev, dec |-> Recs[d].dec, ok |-> Recs[d].ok, note |-> Recs[d].note, len |-> Len(Recs[d].bytes)]])>>)
          /\ FALSE
=============================================================================
