---------------------------- MODULE MC_AggSweep ----------------------------
(* The expectation side of Aggregator.tla for a family of larger populations: thresholds   *)
(* 1..8, every below-threshold size next to sizes at, just above and at twice the           *)
(* threshold.  Only `Expected` (what the property demands) is evaluated — the interleaving  *)
(* of the worker pool is explored on the small populations of MC_Aggregator — and one line  *)
(* per population is emitted for the replay on the real aggregation server, which builds    *)
(* many copies of each group with random measurements (so that every neighbourhood of       *)
(* tags, in either order, occurs) and runs every pool size and several input orders.        *)
EXTENDS Naturals, Sequences, FiniteSets, TLC, Json

VARIABLES pending, buckets, phase, todo, busy, out
A(s, t) == INSTANCE Aggregator WITH Sizes <- s, Threshold <- t, Workers <- {1}

\* below-threshold sizes 1..t-1 interleaved with t, t+1, 2t, t; a stray report at both ends
Pop(t) == <<1>> \o [i \in 1..(2 * (t - 1)) |-> IF i % 2 = 1 THEN (i + 1) \div 2
                                            ELSE <<t, t + 1, 2 * t>>[((i \div 2) % 3) + 1]]
              \o <<t, 1, t + 1, 2, 2 * t, 1>>
Line(t) == LET s == Pop(t)
           IN [sizes |-> s, threshold |-> t,
               expect |-> [g \in 1..Len(s) |-> IF \E o \in A(s, t)!Expected : o[1] = g THEN 1 ELSE 0]]
ASSUME \A t \in 1..8 : PrintT(<<"AGG", ToJson(Line(t))>>)

Init == /\ pending = {} /\ buckets = <<>> /\ phase = "done" /\ todo = {} /\ busy = <<>> /\ out = {}
Next == UNCHANGED <<pending, buckets, phase, todo, busy, out>>
Spec == Init /\ [][Next]_<<pending, buckets, phase, todo, busy, out>>
=============================================================================
