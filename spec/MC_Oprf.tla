------------------------------ MODULE MC_Oprf ------------------------------
(* Client side of PPOPRF.tla (C12, C13): obliviousness / separation over all small       *)
(* configurations, and the DLEQ proof under every single-component substitution.         *)
(* Each enumerated case is emitted with the specification's verdict and executed on the  *)
(* real Client / Server.                                                                  *)
EXTENDS PPOPRF, TLC, Json

TagsO == {0, 1, 200}
RegO1 == {0, 1}
RegO2 == {1, 200}

S1 == NewServer(1, Reg1)
S2 == NewServer(2, Reg2)
Servers == <<S1, S2>>
Inputs == 1..3
Blinds == 1..3

\* ---- C12 ----
Final(s, x, md, r) ==
  LET ev == EvalOf(Servers[s], Blind(x, r), md, FALSE, 0)
  IN IF ev.ok THEN Finalize(x, md, Unblind(ev.out, r)) ELSE <<"none">>
Direct(s, x, md) ==
  LET ev == EvalOf(Servers[s], HashPt(x), md, FALSE, 0)
  IN IF ev.ok THEN Finalize(x, md, ev.out) ELSE <<"none">>

ObliviousAll ==
  \A s \in 1..2, x \in Inputs, md \in Tags, r \in Blinds :
     /\ Oblivious(Servers[s], x, md, r)
     /\ Final(s, x, md, r) = Direct(s, x, md)            \* independent of the blinding
     /\ BlindHides(x, r)
Separated ==
  \A s, s2 \in 1..2, x, x2 \in Inputs, md, md2 \in Tags :
     (Direct(s, x, md) # <<"none">> /\ Direct(s2, x2, md2) # <<"none">>) =>
        ((Direct(s, x, md) = Direct(s2, x2, md2)) <=> (<<s, x, md>> = <<s2, x2, md2>>))
BlindFresh ==
  \A x \in Inputs, r, r2 \in Blinds : r # r2 => Blind(x, r) # Blind(x, r2)

\* ---- C13 ----
\* the honest verifiable evaluation of request (server s, tag md, input x, blinding r, nonce n)
HonestEv(s, md, x, r, n) == EvalOf(Servers[s], Blind(x, r), md, TRUE, n)

Components == {"pk", "in", "out", "md", "c", "s"}
Classes == {"same", "restored", "other-honest", "neighbour", "identity", "other-server", "other-tag"}

\* the substituted verification instance for base request (1, 1, 1, 1, nonce 1)
BaseS == 1  BaseMd == 1  BaseX == 1  BaseR == 1
Base == HonestEv(BaseS, BaseMd, BaseX, BaseR, 1)
Inst == [pk |-> Servers[BaseS].pk, in |-> Blind(BaseX, BaseR), ev |-> Base, md |-> BaseMd]

Applicable(comp, cls) ==
  \/ cls \in {"same", "restored"}
  \/ comp = "pk"  /\ cls \in {"other-server", "other-tag"}
  \/ comp = "in"  /\ cls \in {"other-honest", "neighbour", "identity"}
  \/ comp = "out" /\ cls \in {"other-honest", "neighbour", "identity", "other-server", "other-tag"}
  \/ comp = "md"  /\ cls \in {"other-honest", "neighbour"}          \* registered 0 / unregistered 200
  \/ comp \in {"c", "s"} /\ cls \in {"other-honest", "neighbour", "identity"}

Subst(comp, cls) ==
  IF cls \in {"same", "restored"} THEN Inst
  ELSE CASE comp = "pk" ->
              [Inst EXCEPT !.pk = IF cls = "other-server" THEN Servers[2].pk
                                  ELSE [base |-> 1, mds |-> Reg1, swapped |-> TRUE]]
         [] comp = "in" ->
              [Inst EXCEPT !.in = CASE cls = "other-honest" -> Blind(BaseX, 2)
                                    [] cls = "neighbour" -> Blind(2, BaseR)
                                    [] cls = "identity" -> Elem(0, {}, {<<"zero">>})]
         [] comp = "out" ->
              [Inst EXCEPT !.ev.out = CASE cls = "other-honest" -> HonestEv(1, 1, 2, 1, 2).out
                                        [] cls = "neighbour" -> Div(Base.out, <<"r", 9>>)
                                        [] cls = "identity" -> Elem(0, {}, {<<"zero">>})
                                        [] cls = "other-server" -> HonestEv(2, 1, 1, 1, 3).out
                                        [] cls = "other-tag" -> HonestEv(1, 0, 1, 1, 4).out]
         [] comp = "md" -> [Inst EXCEPT !.md = IF cls = "other-honest" THEN 0 ELSE 200]
         [] comp = "c" -> [Inst EXCEPT !.ev.proof.c = IF cls = "other-honest" THEN 2 ELSE 100]
         [] comp = "s" -> [Inst EXCEPT !.ev.proof.s = IF cls = "other-honest" THEN 2 ELSE 100]

\* Verify on an instance whose public key may have its tag entries swapped
VerifyInst(i) ==
  LET pkv == IF "swapped" \in DOMAIN i.pk THEN PkVal([base |-> 1, mds |-> Reg1], 0) ELSE PkVal(i.pk, i.md)
  IN /\ i.md \in i.pk.mds
     /\ i.ev.proof # <<>>
     /\ i.ev.proof.pv = pkv /\ i.ev.proof.in = i.in /\ i.ev.proof.out = i.ev.out
     /\ i.ev.proof.c = i.ev.proof.s

ProofComplete ==
  \A s \in 1..2, x \in Inputs, r \in Blinds : \A md \in Servers[s].pk.mds :
     Verify(Servers[s].pk, Blind(x, r), HonestEv(s, md, x, r, 1), md)
ProofSound ==
  \A comp \in Components, cls \in Classes :
     Applicable(comp, cls) => (VerifyInst(Subst(comp, cls)) <=> cls \in {"same", "restored"})
\* an evaluation without proof, or for an unregistered tag, never verifies
NoProofNoAccept ==
  ~Verify(S1.pk, Blind(1, 1), EvalOf(S1, Blind(1, 1), 1, FALSE, 0), 1)
NonceFresh ==
  \A n1, n2 \in 1..3 : n1 # n2 => HonestEv(1, 1, 1, 1, n1).proof # HonestEv(1, 1, 1, 1, n2).proof

VARIABLES k, reqs, nextr
Cases == {<<c, cl>> \in Components \X Classes : Applicable(c, cl)}
CaseSeq == LET RECURSIVE F(_) F(T) == IF T = {} THEN <<>> ELSE LET m == CHOOSE a \in T : TRUE IN <<m>> \o F(T \ {m}) IN F(Cases)
OInit == k = 0 /\ srv = <<>> /\ steps = 0 /\ reqs = <<>> /\ nextr = 1
ONext == k < Len(CaseSeq) /\ k' = k + 1 /\ UNCHANGED <<srv, steps, reqs, nextr>>
OSpec == OInit /\ [][ONext]_<<k, srv, steps, reqs, nextr>>
Checks == k = 1 => (ObliviousAll /\ Separated /\ BlindFresh /\ ProofComplete /\ ProofSound /\ NoProofNoAccept /\ NonceFresh)
EmitInv == k >= 1 => PrintT(<<"DLEQ", ToJson([comp |-> CaseSeq[k][1], cls |-> CaseSeq[k][2],
                                            accept |-> IF VerifyInst(Subst(CaseSeq[k][1], CaseSeq[k][2])) THEN 1 ELSE 0])>>)
---------------------------------------------------------------------------
(* Request histories (C12): clients issue blinded requests one after the other, each with a   *)
(* fresh blinding; whatever the history, the finalised output of a request is the function    *)
(* Direct(server, input, tag) and the blinded points sent so far are pairwise different.      *)
hvars == <<reqs, nextr, srv, steps, k>>
HInit == reqs = <<>> /\ nextr = 1 /\ srv = <<>> /\ steps = 0 /\ k = 0
Request(s, x, md, v) ==
  /\ Len(reqs) < 3
  /\ LET r  == nextr
         bp == Blind(x, r)
         ev == EvalOf(Servers[s], bp, md, v, r)
     IN reqs' = Append(reqs, [s |-> s, x |-> x, md |-> md, bp |-> bp, ok |-> ev.ok,
                              fin |-> IF ev.ok THEN Finalize(x, md, Unblind(ev.out, r)) ELSE <<"none">>,
                              verified |-> IF ev.ok /\ v THEN Verify(Servers[s].pk, bp, ev, md) ELSE TRUE])
  /\ nextr' = nextr + 1
  /\ UNCHANGED <<srv, steps, k>>
HNext == \E s \in 1..2, x \in Inputs, md \in Tags, v \in BOOLEAN : Request(s, x, md, v)
HSpec == HInit /\ [][HNext]_hvars
HistoryIndependent ==
  \A i \in 1..Len(reqs) :
     /\ reqs[i].ok = (reqs[i].md \in Servers[reqs[i].s].pk.mds)
     /\ reqs[i].fin = Direct(reqs[i].s, reqs[i].x, reqs[i].md)
     /\ reqs[i].verified
RequestsUnlinkable ==
  \A i, j \in 1..Len(reqs) : i # j => reqs[i].bp # reqs[j].bp /\ reqs[i].bp # HashPt(reqs[i].x)
=============================================================================
