------------------------------ MODULE PPOPRF ------------------------------
(***************************************************************************)
(* The randomness server of ppoprf/src/ppoprf.rs and its client, action    *)
(* per public call.  A server instance is                                  *)
(*    [ key  : id of the OPRF scalar (oprf_key),                           *)
(*      pk   : [base : key id, mds : set of registered tags]  (public_key),*)
(*      pf, pu : the GGM key state of GGM.tla (pprf.key) ]                 *)
(* `Server::new(tags)` draws a fresh OPRF scalar and a fresh GGM key and   *)
(* derives one public point per registered tag.  Export is                 *)
(* `get_private_key` (a snapshot of the three fields), import is           *)
(* `Server::new([])` followed by `set_private_key` (three assignments).     *)
(*                                                                         *)
(* Group elements are symbolic: [h : base id, num : set of scalars, den :  *)
(* set of scalars], meaning  H(h) ^ (prod num / prod den)  (h = 0 for    *)
(* the generator).  Scalars are terms: <<"r", n>> a client blinding,       *)
(* <<"kt", key, md>> the tagged key  k + PRF_ggm(md).  Ideal group: two    *)
(* elements are equal iff their normal forms are equal.                    *)
(***************************************************************************)
EXTENDS Naturals, Sequences, FiniteSets

CONSTANTS Tags,      \* tag universe exercised by the environment (8-bit numbers)
          Reg1,      \* tags registered by the first server
          Reg2,      \* tags registered by the second, independently keyed server
          MaxInst,   \* bound on live instances
          MaxSteps   \* bound on history length (state constraint)

G == INSTANCE GGM WITH Depth <- 8, Dom <- Tags, prefixes <- <<>>, punctured <- <<>>

VARIABLES srv,       \* sequence of server instances
          steps      \* history length so far (hidden by the VIEW)

vars == <<srv, steps>>

FreshGGM == [pf |-> << [bits |-> <<0>>, seed |-> <<0>>], [bits |-> <<1>>, seed |-> <<1>>] >>, pu |-> <<>>]

NewServer(k, tags) ==
  [key |-> k, pk |-> [base |-> k, mds |-> tags], pf |-> FreshGGM.pf, pu |-> FreshGGM.pu]

PunctOf(s) == {G!Val(s.pu[i]) : i \in 1..Len(s.pu)}

---------------------------------------------------------------------------
(* Symbolic group                                                          *)
Elem(h, num, den) == [h |-> h, num |-> num \ den, den |-> den \ num]
HashPt(x)  == Elem(x, {}, {})            \* hash-to-group of input x
\* (sets suffice: a scalar never occurs twice on one side in any modelled behaviour)
Mul(P, s) == IF s \in P.den THEN [P EXCEPT !.den = @ \ {s}] ELSE [P EXCEPT !.num = @ \cup {s}]
Div(P, s) == IF s \in P.num THEN [P EXCEPT !.num = @ \ {s}] ELSE [P EXCEPT !.den = @ \cup {s}]
BadPt == [h |-> 999, num |-> {}, den |-> {}]      \* 32 bytes that do not decode

KT(s, md) == <<"kt", s.key, md>>          \* tagged key  k + ts  (ts = GGM value of md)
PkVal(pk, md) == Elem(0, {<<"kt", pk.base, md>>}, {})   \* base_pk + md_pk = G^(k+ts)

---------------------------------------------------------------------------
(* Server::eval, in the order of the code                                  *)
Err(e) == [ok |-> FALSE, err |-> e]
EvalOf(s, pt, md, verifiable, nonce) ==
  IF pt = BadPt THEN Err("BadPointEncoding")
  ELSE IF md \notin s.pk.mds THEN Err("BadTag")
  ELSE IF G!EvalOf(s.pf, md) = <<>> THEN Err("NoPrefixFound")
  ELSE LET out == Div(pt, KT(s, md))
       IN [ok |-> TRUE, out |-> out,
           proof |-> IF verifiable
                       THEN [pv |-> PkVal(s.pk, md), in |-> pt, out |-> out, c |-> nonce, s |-> nonce]
                       ELSE <<>>]

Answers(s, md) == md \in s.pk.mds /\ G!EvalOf(s.pf, md) # <<>>

(* Client                                                                  *)
Blind(x, r)   == Mul(HashPt(x), <<"r", r>>)
Unblind(P, r) == Div(P, <<"r", r>>)
Finalize(x, md, P) == <<"fin", x, md, P>>

\* Client::verify : ideal DLEQ — accepts exactly the statement the proof was issued for,
\* with untouched scalars; a missing proof, an unregistered tag or an undecodable point
\* is a rejection.
Verify(pk, in, ev, md) ==
  /\ md \in pk.mds
  /\ ev.proof # <<>>
  /\ in # BadPt /\ ev.out # BadPt
  /\ ev.proof.pv = PkVal(pk, md)
  /\ ev.proof.in = in
  /\ ev.proof.out = ev.out
  /\ ev.proof.c = ev.proof.s          \* c and s belong to the same issued proof (same nonce id)

---------------------------------------------------------------------------
Init == /\ srv = << NewServer(1, Reg1) >>
        /\ steps = 0

Live == 1..Len(srv)

\* Server::puncture(md): the GGM puncture of GGM.tla; the result (ok / refused) is observable
PunctureRes(s, md) == G!PunctureOf(s.pf, s.pu, md)
PunctureSt(sv, i, md) ==
  LET r == PunctureRes(sv[i], md) IN [sv EXCEPT ![i].pf = r.pf, ![i].pu = r.pu]
Puncture(i, md) == /\ srv' = PunctureSt(srv, i, md)
                   /\ steps' = steps + 1

\* #[derive(Clone)] : a deep copy that then evolves independently
CloneSt(sv, i) == Append(sv, sv[i])
Clone(i) == /\ Len(srv) < MaxInst
            /\ srv' = CloneSt(srv, i)
            /\ steps' = steps + 1

\* get_private_key -> bincode -> ServerKeyState -> set_private_key on Server::new([])
ExportOf(s) == [oprf_key |-> s.key, public_key |-> s.pk, ggm_key |-> [pf |-> s.pf, pu |-> s.pu]]
ImportInto(fresh, blob) ==
  [fresh EXCEPT !.key = blob.oprf_key, !.pk = blob.public_key, !.pf = blob.ggm_key.pf, !.pu = blob.ggm_key.pu]
ExpImpSt(sv, i) == Append(sv, ImportInto(NewServer(99, {}), ExportOf(sv[i])))
ExportImport(i) ==
  /\ Len(srv) < MaxInst
  /\ srv' = ExpImpSt(srv, i)
  /\ steps' = steps + 1

\* key synchronisation between two live instances: j installs the state exported by i
\* (set_private_key on an instance that already holds a — possibly older — state)
SyncSt(sv, i, j) == [sv EXCEPT ![j] = ImportInto(sv[j], ExportOf(sv[i]))]
Sync(i, j) == /\ i # j
              /\ srv' = SyncSt(srv, i, j)
              /\ steps' = steps + 1

\* a second, independently keyed server (at most one)
NewOtherSt(sv) == Append(sv, NewServer(2, Reg2))
NewOther == /\ Len(srv) < MaxInst
            /\ \A i \in Live : srv[i].key # 2
            /\ srv' = NewOtherSt(srv)
            /\ steps' = steps + 1

Next == \/ \E i \in Live, md \in Tags : Puncture(i, md)
        \/ \E i \in Live : Clone(i) \/ ExportImport(i)
        \/ \E i, j \in Live : Sync(i, j)
        \/ NewOther

Spec == Init /\ [][Next]_vars
Bounded == steps <= MaxSteps

---------------------------------------------------------------------------
(* Invariants (C14)                                                        *)
RegOf(k) == IF k = 1 THEN Reg1 ELSE Reg2

\* every instance carries the public key it was created with
PkImmutable == \A i \in Live : srv[i].pk = [base |-> srv[i].key, mds |-> RegOf(srv[i].key)]

\* answers iff registered at creation and not punctured in this instance's history
AnswersIffRegisteredUnpunctured ==
  \A i \in Live : \A md \in Tags :
     Answers(srv[i], md) <=> (md \in RegOf(srv[i].key) /\ md \notin PunctOf(srv[i]))

\* the answer for a (point, tag) is a function of (key, tag, point) only: never changes,
\* equal between an exporter and its import / a clone and its origin
AnswerValue(s, x, md) == EvalOf(s, HashPt(x), md, FALSE, 0)
AnswerStable ==
  \A i, j \in Live : \A md \in Tags :
     (srv[i].key = srv[j].key /\ Answers(srv[i], md) /\ Answers(srv[j], md))
        => AnswerValue(srv[i], 1, md) = AnswerValue(srv[j], 1, md)
KeysSeparate ==
  \A i, j \in Live : \A md \in Tags :
     (srv[i].key # srv[j].key /\ Answers(srv[i], md) /\ Answers(srv[j], md))
        => AnswerValue(srv[i], 1, md).out # AnswerValue(srv[j], 1, md).out

\* each instance's GGM key satisfies the GGM invariants (composition with GGM.tla)
GGMOk ==
  \A i \in Live :
     LET K == G!NodeIdsOf(srv[i].pf)
         P == PunctOf(srv[i])
     IN /\ Cardinality(K) = Len(srv[i].pf)
        /\ \A x \in Tags : Cardinality({n \in K : x % (2^n[1]) = n[2]}) = IF x \in P THEN 0 ELSE 1

Inv == PkImmutable /\ AnswersIffRegisteredUnpunctured /\ AnswerStable /\ KeysSeparate /\ GGMOk

\* action property: a step changes at most one existing instance, and either only its GGM key
\* by further punctures (puncture is local; clones and imports evolve independently) or, for a
\* key synchronisation, by making it an exact copy of another live instance
StepLocal ==
  [][/\ Len(srv') >= Len(srv)
     /\ Cardinality({i \in Live : srv'[i] # srv[i]}) <= 1
     /\ \A i \in Live :
          \/ /\ srv'[i].key = srv[i].key /\ srv'[i].pk = srv[i].pk
             /\ PunctOf(srv[i]) \subseteq PunctOf(srv'[i])
          \/ \E k \in Live : k # i /\ srv'[i] = srv[k]]_vars

\* a restored server is indistinguishable from the exporter at the moment of export
ImportFaithful ==
  \A i \in Live :
     LET s == ImportInto(NewServer(99, {}), ExportOf(srv[i]))
     IN s = srv[i]

---------------------------------------------------------------------------
(* Client-side properties (C12): checked over all small configurations     *)
Oblivious(s, x, md, r) ==
  LET ev == EvalOf(s, Blind(x, r), md, FALSE, 0)
      dr == EvalOf(s, HashPt(x), md, FALSE, 0)
  IN ev.ok = dr.ok /\ (ev.ok => Unblind(ev.out, r) = dr.out)
BlindHides(x, r) == Blind(x, r) # HashPt(x)
=============================================================================
