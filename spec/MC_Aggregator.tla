--------------------------- MODULE MC_Aggregator ---------------------------
EXTENDS Aggregator, TLC, Json
SizesA == <<1, 2, 3>>
SizesB == <<2, 2, 1, 4>>
SizesC == <<3, 1, 2>>
SizesD == <<1, 2, 1>>     \* with Threshold = 1: every reported measurement is revealed
W2 == {1, 2}
W3 == {1, 2, 3}
\* the expected output, emitted once for the replay on the real aggregation server
ExpLine == [sizes |-> Sizes, threshold |-> Threshold,
            expect |-> [g \in Groups |-> IF Sizes[g] >= Threshold /\ Sizes[g] > 0 THEN 1 ELSE 0]]
ASSUME PrintT(<<"AGG", ToJson(ExpLine)>>)
=============================================================================
