----------------------------- MODULE Trace_GGM -----------------------------
(* Trace validation (binding B) for GGM.tla: an ndjson log recorded from the   *)
(* real ppoprf::ggm::GGM must be a behaviour of the specification.  Every      *)
(* event carries its arguments, its result and the projected key state (the    *)
(* retained nodes and the punctured list read through the verif-hooks), so     *)
(* validation is linear.  The specification state is advanced by the spec's    *)
(* own Puncture action; the implementation's logged state is judged by the     *)
(* property's predicates (exact cover, forward security), not by equality with *)
(* the canonical cover.                                                        *)
EXTENDS GGM, TLC, Json, IOUtils

CONSTANT CheckState   \* TRUE: also judge the logged key material (C11); FALSE: call results only (C10)

Recs == ndJsonDeserialize(IOEnv.TRACE)

VARIABLE l        \* index of the next event to consume
tvars == <<prefixes, punctured, l>>

IsEv(name) == l <= Len(Recs) /\ Recs[l].ev = name /\ l' = l + 1

\* --- the property predicates evaluated on the implementation's logged state ---
ImplNodes(r) == {<<r.nodes[i][1], r.nodes[i][2]>> : i \in 1..Len(r.nodes)}
ImplPunct(r) == {r.pl[i] : i \in 1..Len(r.pl)}
ImplCoverOK(r, P) ==
  LET K  == ImplNodes(r)
      PL == PLevels(P)
  IN /\ \A n \in K : n[1] \in 0..Depth /\ n[2] < 2^n[1]                  \* (level 0: the root itself)
     /\ \A n \in K : n[2] \notin PL[n[1]]                                  \* no punctured input covered
     \* every other input is covered — at least once (a non-minimal or overlapping cover, e.g.
     \* cached leaf values of live inputs, retains nothing about punctured ones)
     /\ (Inputs \ P) \subseteq UNION {{n[2] + (2^n[1]) * i : i \in 0..(2^(Depth - n[1]) - 1)} : n \in K}
ImplForwardSecure(r, P) ==
  LET PL == PLevels(P) IN \A n \in ImplNodes(r) : n[2] \notin PL[n[1]]

TraceInit == Init /\ l = 1

TReset == /\ IsEv("Reset")
          /\ prefixes' = << [bits |-> <<0>>, seed |-> <<0>>], [bits |-> <<1>>, seed |-> <<1>>] >>
          /\ punctured' = <<>>

TPuncture ==
  /\ IsEv("Puncture")
  /\ LET r  == Recs[l]
         pr == PunctureOf(prefixes, punctured, r.x)
     IN /\ (r.ok = 1) = pr.ok
        /\ prefixes' = pr.pf
        /\ punctured' = pr.pu
        /\ LET P == {Val(pr.pu[i]) : i \in 1..Len(pr.pu)}
           IN CheckState => /\ ImplPunct(r) = P
                            /\ ImplCoverOK(r, P)
                            /\ ImplForwardSecure(r, P)

TEval ==
  /\ IsEv("Eval")
  /\ LET r == Recs[l]
         v == Eval(r.x)
     IN /\ (r.ok = 1) = (v # <<>>)
        /\ (r.ok = 1) => (r.vid = r.x /\ v = BitsOf(r.x))
  /\ UNCHANGED <<prefixes, punctured>>

TBadLen ==
  /\ IsEv("BadLen")
  /\ LET r == Recs[l]
         P == PuncturedSet
     IN /\ r.ok = 0
        /\ CheckState => (ImplPunct(r) = P /\ ImplCoverOK(r, P))
  /\ UNCHANGED <<prefixes, punctured>>

TraceNext == TReset \/ TPuncture \/ TEval \/ TBadLen
TraceSpec == TraceInit /\ [][TraceNext]_tvars

\* the specification's own invariants, evaluated at every step of the trace
\* (the key state only changes at Reset/Puncture events; the linear forms of the quadratic
\*  invariants are used, their equivalence being model-checked in MC_GGM)
Changed == l = 1 \/ Recs[l-1].ev \in {"Reset", "Puncture", "BadLen"}
TraceInv == Changed =>
  /\ PrefixFreeFast /\ ExactCoverFast /\ SeedIsPath /\ ForwardSecure /\ Canonical /\ NoDupPunctured

Accepted ==
  LET d == TLCGet("stats").diameter
  IN IF d = Len(Recs) + 1 THEN TRUE
     ELSE /\ PrintT(<<"REJECTED", ToJson([at |-> d, ev |-> Recs[d]])>>)
          /\ FALSE
=============================================================================
