-------------------------------- MODULE Star --------------------------------
(***************************************************************************)
(* Symbolic model of star/src/lib.rs (client report generation, recovery   *)
(* on the aggregation side) and of the string API in star-wasm, on top of  *)
(* Adss.tla.  Byte strings are abstract:  Str(s) for a sequence s over a   *)
(* small alphabet;  thresholds are small naturals.                         *)
(*                                                                         *)
(* A client is  [m, e, t, aux, src]  (measurement, epoch, threshold,       *)
(* associated data, randomness source).                                    *)
(***************************************************************************)
EXTENDS Adss

Str(s) == <<"S", s>>
NoAux == <<"none">>
Aux(s) == <<"some", s>>

\* 32-byte client randomness.  Local: a function of exactly (m, e, t).  Randomness
\* server: a function of (server key, epoch tag, m) — the threshold does not enter.
Rnd(src, m, e, t) ==
  IF src = "local" THEN <<"Rnd", "local", m, e, t>>
                   ELSE <<"Rnd", "oprf", m, e, 0>>

R(i, rnd) == <<"R", i, rnd>>            \* derive_random_values: i = 0, 1, 2
Ske(r0, e) == <<"Ske", r0, e>>          \* derive_ske_key(r0, epoch)[..16]
Payload(m, aux) == <<"Pay", m, aux>>    \* len|m  [len|aux]   (absent / empty / non-empty aux distinct)

\* the payload cipher: Strobe key(k) [ad(nonce)] send_enc(data)
PayEnc(k, nonce, p) == <<"PayEnc", k, nonce, p>>
PayDec(k, c) == IF c[1] = "PayEnc" /\ c[2] = k THEN c[4] ELSE Junk(<<"paydec", k, c>>)

\* The sharing a client's share belongs to.  Sources "adss" / "adssT" model direct use of the
\* adss crate (C16): message = c.m, coins = c.e, default / custom transcript.
SidOf(c) ==
  IF c.src = "adss" THEN Sid(DefaultT, c.t, c.m, c.e)
  ELSE IF c.src = "adssT" THEN Sid(1, c.t, c.m, c.e)
  ELSE LET rnd == Rnd(c.src, c.m, c.e, c.t)
       IN Sid(DefaultT, c.t, R(0, rnd), R(1, rnd))

\* Message::generate(mg, rnd, aux) with share point x and cipher nonce n
ReportOf(c, x, n) ==
  LET rnd == Rnd(c.src, c.m, c.e, c.t)
      key == Ske(R(0, rnd), c.e)
  IN [ct |-> PayEnc(key, n, Payload(c.m, c.aux)),
      share |-> ShareOf(SidOf(c), x),
      tag |-> R(2, rnd)]

KeyOf(c) == Ske(R(0, Rnd(c.src, c.m, c.e, c.t)), c.e)
TagOf(c) == R(2, Rnd(c.src, c.m, c.e, c.t))

\* aggregation side: share_recover + derive_ske_key(epoch) + decrypt
RecoverKey(shares, e) ==
  LET r == AdssRecover(shares)
  IN IF r.ok THEN [ok |-> TRUE, key |-> Ske(SidM(r.sid), e), sid |-> r.sid] ELSE [ok |-> FALSE]

---------------------------------------------------------------------------
(* Adversary knowledge: least fixed point over explicit derivation rules.  *)
(* `obs` is a set of reports (as sent on the wire), `pub` the public       *)
(* epochs.  Secrets of client c:  m, aux, rnd, r0, r1, sharing key, ske.   *)

Visible(r) == {r.ct, r.tag, r.share.C, r.share.D, r.share.J} \cup {r.share.y[i] : i \in 1..Len(r.share.y)}

HonestY(q) == Len(q.share.y) > 0 /\ q.share.y[1][1] = "Y" /\ q.share.y[1] = YVal(q.share.y[1][2], q.share.x)
PointsOn(obs, s) == {q.share.x : q \in {q \in obs : HonestY(q) /\ q.share.y[1][2] = s}}
Need(s) == IF SidThr(s) = 0 THEN 1 ELSE SidThr(s)

Step(K, obs, epochs) ==
  LET polys  == {q.share.y[1][2] : q \in {q \in obs : HonestY(q)}}
      \* (1) enough points of one polynomial give its constant term (the sharing key)
      k1 == {Key(s) : s \in {s \in polys : Cardinality(PointsOn(obs, s)) >= Need(s)}}
      \* (2) a known sharing key opens C and D of any share encrypted under it
      k2 == {q.share.C[4] : q \in {q \in obs : q.share.C[1] = "Enc" /\ q.share.C[2] \in K}}
            \cup {q.share.D[4] : q \in {q \in obs : q.share.D[1] = "Enc" /\ q.share.D[2] \in K}}
      \* (3) r0 together with a public epoch gives the payload key
      k3 == {Ske(k, e) : k \in {x \in K : x[1] = "R" /\ x[2] = 0}, e \in epochs}
      \* (4) a known payload key opens the ciphertext; a payload gives measurement and aux
      k4 == {q.ct[4] : q \in {q \in obs : q.ct[1] = "PayEnc" /\ q.ct[2] \in K}}
      k5 == {p[2] : p \in {x \in K : x[1] = "Pay"}} \cup {p[3] : p \in {x \in K : x[1] = "Pay"}}
      \* (5) two payload ciphertexts under one key and one nonce leak the XOR of the payloads
      \*     (Strobe send_enc is a stream cipher: ct = keystream(key, nonce) xor data)
      k6 == {<<"Xor", pr[1].ct[4], pr[2].ct[4]>> :
               pr \in {pr \in obs \X obs : /\ pr[1].ct[1] = "PayEnc" /\ pr[2].ct[1] = "PayEnc"
                                           /\ pr[1].ct[2] = pr[2].ct[2] /\ pr[1].ct[3] = pr[2].ct[3]
                                           /\ pr[1].ct[4] # pr[2].ct[4]}}
  IN K \cup k1 \cup k2 \cup k3 \cup k4 \cup k5 \cup k6

RECURSIVE Close(_, _, _)
Close(K, obs, epochs) ==
  LET K2 == Step(K, obs, epochs) IN IF K2 = K THEN K ELSE Close(K2, obs, epochs)

\* everything the adversary can derive from the observed reports
Know(obs, epochs) == Close(UNION {Visible(r) : r \in obs}, obs, epochs)

\* the secrets of a client
SecretsOf(c) ==
  LET rnd == Rnd(c.src, c.m, c.e, c.t)
  IN {c.m, rnd, R(0, rnd), R(1, rnd), Key(SidOf(c)), Ske(R(0, rnd), c.e), Payload(c.m, c.aux)}
     \cup (IF c.aux = NoAux THEN {} ELSE {c.aux})

=============================================================================
