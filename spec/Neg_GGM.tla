------------------------------ MODULE Neg_GGM ------------------------------
(* NEGATIVE model (must be refuted by TLC): a puncture that only black-lists the input —   *)
(* the covering node and its seed are kept.  Evaluation behaviour is unchanged (C10 holds) *)
(* but ForwardSecure / ExactCover fail: this is the design mistake C11 is about, and the   *)
(* refutation shows those invariants are not vacuous.                                       *)
EXTENDS GGM
BlacklistPuncture(x) ==
  /\ \A i \in 1..Len(punctured) : punctured[i] # BitsOf(x)
  /\ punctured' = Append(punctured, BitsOf(x))
  /\ UNCHANGED prefixes
NegNext == \E x \in Dom : BlacklistPuncture(x)
NegSpec == Init /\ [][NegNext]_vars
=============================================================================
