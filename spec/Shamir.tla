------------------------------- MODULE Shamir -------------------------------
(***************************************************************************)
(* Shamir secret sharing as implemented in sharks/src/lib.rs and           *)
(* sharks/src/share_ff.rs, generic in the field.  Instantiated with a      *)
(* small prime field (native integers; exhaustive model checking,          *)
(* MC_ShamirSmall) and with Fp129 (trace validation of the real code,      *)
(* Trace_Shamir) — the very same operators in both.                        *)
(***************************************************************************)
EXTENDS Naturals, Sequences, FiniteSets

CONSTANTS FA(_, _), FS(_, _), FM(_, _),   \* field addition, subtraction, multiplication
          FZ, FO                           \* zero and one

\* polynomial evaluation exactly as Evaluator::evaluate: coefficients from the highest
\* degree down, fold acc * x + c starting from zero
RECURSIVE HornerFrom(_, _, _, _)
HornerFrom(coeffs, x, i, acc) ==
  IF i > Len(coeffs) THEN acc ELSE HornerFrom(coeffs, x, i + 1, FA(FM(acc, x), coeffs[i]))
Horner(coeffs, x) == HornerFrom(coeffs, x, 1, FZ)

\* random_polynomial(s, k, rng): k-1 draws (k = threshold; none for k <= 1), then s
PolyOf(secretElem, draws, t) == draws \o <<secretElem>>

\* dealer: polynomial e uses draws (e-1)(t-1)+1 .. e(t-1)
NDraws(t) == IF t = 0 THEN 0 ELSE t - 1
DealPolys(secret, draws, t) ==
  [e \in 1..Len(secret) |->
     PolyOf(secret[e], SubSeq(draws, (e - 1) * NDraws(t) + 1, e * NDraws(t)), t)]

ShareAt(polys, x) == [x |-> x, y |-> [e \in 1..Len(polys) |-> Horner(polys[e], x)]]
OnPolys(polys, sh) == Len(sh.y) = Len(polys) /\ \A e \in 1..Len(polys) : sh.y[e] = Horner(polys[e], sh.x)

---------------------------------------------------------------------------
(* Sharks::recover, refusal rules and selection of the interpolated points *)
RECURSIVE Dedup(_, _)
Dedup(sh, seen) ==
  IF sh = <<>> THEN <<>>
  ELSE IF Head(sh).x \in seen THEN Dedup(Tail(sh), seen)
       ELSE <<Head(sh)>> \o Dedup(Tail(sh), seen \cup {Head(sh).x})

Ragged(sh) == \E i \in 1..Len(sh) : Len(sh[i].y) # Len(sh[1].y)

\* [ok |-> FALSE]  or  [ok |-> TRUE, pts |-> the first t distinct shares, in order]
Selected(t, sh) ==
  IF sh = <<>> \/ Ragged(sh) THEN [ok |-> FALSE]
  ELSE LET d == Dedup(sh, {})
       IN IF Len(d) < t \/ t = 0 THEN [ok |-> FALSE] ELSE [ok |-> TRUE, pts |-> SubSeq(d, 1, t)]

\* certificate form of interpolation: if every selected point lies on polynomials of degree
\* < t (Len(polys[e]) <= t), the interpolated value is their constant term (uniqueness)
ConstTerms(polys) == [e \in 1..Len(polys) |-> polys[e][Len(polys[e])]]
=============================================================================
