---------------------------- MODULE Trace_Shamir ----------------------------
(* Binding C/B for C06 and the polynomial certificate of C02: the dealing and        *)
(* recovery calls of star_sharks recorded from the real code are re-evaluated by     *)
(* TLC with Shamir.tla instantiated over Fp129 (base-256 limb arithmetic).           *)
EXTENDS Fp129, FiniteSets, TLC, Json, IOUtils

S == INSTANCE Shamir WITH FA <- FAdd, FS <- FSub, FM <- FMul, FZ <- Zero, FO <- One

Recs == ndJsonDeserialize(IOEnv.TRACE)

VARIABLES l,
          deals,     \* sequence of [t, polys]   (expected polynomials of each dealing)
          shares     \* sequence of [deal, x, y] (shares validated against their dealing)
tvars == <<l, deals, shares>>
IsEv(name) == l <= Len(Recs) /\ Recs[l].ev = name /\ l' = l + 1

TraceInit == l = 1 /\ deals = <<>> /\ shares = <<>>

\* Sharks(t).dealer_rng(secret bytes, rng): `secret` = the canonical elements, `draws` = the
\* field elements obtained by running the same random source through the field's own sampler
TDeal ==
  /\ IsEv("Deal")
  /\ LET r == Recs[l]
     IN /\ \A e \in 1..Len(r.secret) : IsElem(r.secret[e])
        /\ \A e \in 1..Len(r.draws) : IsElem(r.draws[e])
        /\ Len(r.draws) = Len(r.secret) * S!NDraws(r.t)
        /\ deals' = Append(deals, [t |-> r.t, polys |-> S!DealPolys(r.secret, r.draws, r.t)])
  /\ UNCHANGED shares

\* a secret holding an out-of-range element is refused, not altered
TRefuse == /\ IsEv("DealRefused")
           /\ \E e \in 1..Len(Recs[l].chunks) : FromRepr(Recs[l].chunks[e])[1] = "none"
           /\ UNCHANGED <<deals, shares>>

\* a share obtained from the evaluator: a point on every polynomial of its dealing, x # 0;
\* the sequential iterator yields x = 1, 2, 3, ...
TShare ==
  /\ IsEv("Share")
  /\ LET r == Recs[l]
         d == deals[r.deal]
         sh == [x |-> r.x, y |-> r.y]
     IN /\ IsElem(r.x) /\ r.x # Zero
        /\ S!OnPolys(d.polys, sh)
        /\ r.kind = "next" => r.x = Small(r.idx)
        /\ shares' = Append(shares, [deal |-> r.deal, x |-> r.x, y |-> r.y])
  /\ UNCHANGED deals

\* Sharks(t).recover(selection of recorded shares): refusal rules, and the result is the
\* secret whenever the first t distinct shares all stem from one dealing of degree < t
TRecover ==
  /\ IsEv("Recover")
  /\ LET r   == Recs[l]
         sel == [i \in 1..Len(r.sel) |-> [x |-> shares[r.sel[i]].x,
                                         y |-> SubSeq(shares[r.sel[i]].y, 1, Len(shares[r.sel[i]].y) - r.drop[i])]]
         s   == S!Selected(r.t, sel)
     IN /\ (r.ok = 1) = s.ok
        /\ s.ok =>
             LET ds == {shares[r.sel[i]].deal : i \in 1..Len(r.sel)}
             IN (Cardinality(ds) = 1 /\ \A i \in 1..Len(r.sel) : r.drop[i] = 0) =>
                  LET d == deals[CHOOSE x \in ds : TRUE]
                  IN (d.t <= r.t /\ d.t >= 1) => r.result = S!ConstTerms(d.polys)
  /\ UNCHANGED <<deals, shares>>

\* C02 certificate: a coefficient vector (untrusted witness, highest degree first) for the
\* polynomial of one ADSS sharing and the inner shares of ALL reports of that group:
\* every share lies on it, the degree is exactly t-1, the non-constant coefficients are
\* non-zero and pairwise distinct
TCert ==
  /\ IsEv("Cert")
  /\ LET r == Recs[l]
     IN /\ Len(r.coeffs) = r.t
        /\ \A i \in 1..Len(r.coeffs) : IsElem(r.coeffs[i])
        /\ \A i \in 1..(r.t - 1) : r.coeffs[i] # Zero
        /\ \A i, j \in 1..(r.t - 1) : i # j => r.coeffs[i] # r.coeffs[j]
        /\ \A i \in 1..Len(r.pts) : r.pts[i][2] = S!Horner(r.coeffs, r.pts[i][1])
        /\ Len(r.pts) >= r.t + 1
        /\ Cardinality({r.pts[i][1] : i \in 1..Len(r.pts)}) = Len(r.pts)
        \* and they differ from the coefficients of every other certified sharing in the run
        /\ \A k \in 1..(l - 1) : Recs[k].ev = "Cert" =>
              \A i \in 1..(r.t - 1) : \A j \in 1..(Recs[k].t - 1) : r.coeffs[i] # Recs[k].coeffs[j]
  /\ UNCHANGED <<deals, shares>>

TraceNext == TDeal \/ TRefuse \/ TShare \/ TRecover \/ TCert
TraceSpec == TraceInit /\ [][TraceNext]_tvars

Accepted ==
  LET d == TLCGet("stats").diameter
  IN IF d = Len(Recs) + 1 THEN TRUE
     ELSE /\ PrintT(<<"REJECTED", ToJson([at |-> d, ev |-> Recs[d]])>>)
          /\ FALSE
=============================================================================
