---------------------------- MODULE Trace_Shamir ----------------------------
(* Binding C/B for C06 and the polynomial certificate of C02: the dealing and        *)
(* recovery calls of star_sharks recorded from the real code are re-evaluated by     *)
(* TLC with Shamir.tla instantiated over Fp129 (base-256 limb arithmetic).           *)
EXTENDS Fp129, FiniteSets, TLC, Json, IOUtils

S == INSTANCE Shamir WITH FA <- FAdd, FS <- FSub, FM <- FMul, FZ <- Zero, FO <- One

Recs == ndJsonDeserialize(IOEnv.TRACE)

VARIABLES l,
          deals,     \* sequence of [t, polys]   (expected polynomials of each dealing)
          shares     \* sequence of [deal, x, y] (shares validated against their dealing)
tvars == <<l, deals, shares>>
IsEv(name) == l <= Len(Recs) /\ Recs[l].ev = name /\ l' = l + 1

TraceInit == l = 1 /\ deals = <<>> /\ shares = <<>>

\* Sharks(t).dealer_rng(secret bytes, rng): `secret` = the canonical elements; `draws` = the field
\* elements obtained by running the same random source through the field's own sampler (a few
\* more than needed); `polys` = a witness for the k polynomials, highest degree first.  The
\* property fixes what the polynomials are made of, not the order in which a dealer consumes its
\* draws: the constant terms are the secret's elements and the other coefficients are SEPARATE
\* draws (an injection of coefficient positions into draw positions, i.e. multiset inclusion).
\* S!DealPolys (the order the current code uses; explored exhaustively by MC_ShamirSmall) is one such dealer.
Count(seq, v) == Cardinality({j \in 1..Len(seq) : seq[j] = v})
Injects(c, d) == \A i \in 1..Len(c) : Count(c, c[i]) <= Count(d, c[i])
NonConst(polys, nd) ==
  IF nd = 0 THEN <<>>
  ELSE [i \in 1..(Len(polys) * nd) |-> polys[((i - 1) \div nd) + 1][((i - 1) % nd) + 1]]
TDeal ==
  /\ IsEv("Deal")
  /\ LET r == Recs[l]
         nd == S!NDraws(r.t)
     IN /\ \A e \in 1..Len(r.secret) : IsElem(r.secret[e])
        /\ \A e \in 1..Len(r.draws) : IsElem(r.draws[e])
        /\ Len(r.polys) = Len(r.secret)
        /\ \A e \in 1..Len(r.polys) :
              /\ Len(r.polys[e]) = nd + 1
              /\ \A i \in 1..(nd + 1) : IsElem(r.polys[e][i])
              /\ r.polys[e][nd + 1] = r.secret[e]
        \* "a separate draw from the supplied random source": when the dealer turns the stream into
        \* field elements the way the field's own sampler does (probed by the recorder), each
        \* coefficient must be its own one of the recorded draws; for another sampler only what no
        \* sampler can excuse is demanded — under a cryptographic stream no coefficient repeats
        /\ r.sampler # "mixed"
        /\ r.sampler = "fp-random" => Injects(NonConst(r.polys, nd), r.draws)
        /\ (r.sampler = "opaque" /\ r.strong = 1) =>
              LET c == NonConst(r.polys, nd) IN \A i, j \in 1..Len(c) : i # j => c[i] # c[j]
        /\ deals' = Append(deals, [t |-> r.t, polys |-> r.polys])
  /\ UNCHANGED shares

\* a secret holding an out-of-range element is refused, not altered
TRefuse == /\ IsEv("DealRefused")
           /\ \E e \in 1..Len(Recs[l].chunks) : FromRepr(Recs[l].chunks[e])[1] = "none"
           /\ UNCHANGED <<deals, shares>>

\* a share obtained from the evaluator: a point on every polynomial of its dealing, x # 0;
\* the shares of the sequential iterator have pairwise distinct x (so any t of them combine)
TShare ==
  /\ IsEv("Share")
  /\ LET r == Recs[l]
         d == deals[r.deal]
         sh == [x |-> r.x, y |-> r.y]
     IN /\ IsElem(r.x) /\ r.x # Zero
        /\ S!OnPolys(d.polys, sh)
        /\ r.kind = "next" =>
              \A i \in 1..Len(shares) : (shares[i].deal = r.deal /\ shares[i].kind = "next") => shares[i].x # r.x
        /\ shares' = Append(shares, [deal |-> r.deal, kind |-> r.kind, x |-> r.x, y |-> r.y])
  /\ UNCHANGED deals

\* Sharks(t).recover(selection of recorded shares): refusal rules, and the result is the
\* secret whenever the first t distinct shares all stem from one dealing of degree < t
TRecover ==
  /\ IsEv("Recover")
  /\ LET r   == Recs[l]
         \* r.drop[i]: 0 the share as dealt, 1 its last y removed, 2 one y appended
         sel == [i \in 1..Len(r.sel) |-> [x |-> shares[r.sel[i]].x,
                                         y |-> IF r.drop[i] = 2 THEN Append(shares[r.sel[i]].y, One)
                                               ELSE SubSeq(shares[r.sel[i]].y, 1, Len(shares[r.sel[i]].y) - r.drop[i])]]
         s   == S!Selected(r.t, sel)
     IN /\ (r.ok = 1) = s.ok
        /\ s.ok =>
             LET ds == {shares[r.sel[i]].deal : i \in 1..Len(r.sel)}
             IN (Cardinality(ds) = 1 /\ \A i \in 1..Len(r.sel) : r.drop[i] = 0) =>
                  LET d == deals[CHOOSE x \in ds : TRUE]
                  IN (d.t <= r.t /\ d.t >= 1) => r.result = S!ConstTerms(d.polys)
  /\ UNCHANGED <<deals, shares>>

\* C02 certificate: a coefficient vector (untrusted witness, highest degree first) for the
\* polynomial of one ADSS sharing and the inner shares of ALL reports of that group:
\* every share lies on it, the degree is exactly t-1, the non-constant coefficients are
\* non-zero and pairwise distinct
TCert ==
  /\ IsEv("Cert")
  /\ LET r == Recs[l]
     IN /\ Len(r.coeffs) = r.t
        /\ \A i \in 1..Len(r.coeffs) : IsElem(r.coeffs[i])
        /\ \A i \in 1..(r.t - 1) : r.coeffs[i] # Zero
        /\ \A i, j \in 1..(r.t - 1) : i # j => r.coeffs[i] # r.coeffs[j]
        /\ \A i \in 1..Len(r.pts) : r.pts[i][2] = S!Horner(r.coeffs, r.pts[i][1])
        /\ Len(r.pts) >= r.t + 1
        /\ Cardinality({r.pts[i][1] : i \in 1..Len(r.pts)}) = Len(r.pts)
        \* and they differ from the coefficients of every other certified sharing in the run
        /\ \A k \in 1..(l - 1) : Recs[k].ev = "Cert" =>
              \A i \in 1..(r.t - 1) : \A j \in 1..(Recs[k].t - 1) : r.coeffs[i] # Recs[k].coeffs[j]
  /\ UNCHANGED <<deals, shares>>

TraceNext == TDeal \/ TRefuse \/ TShare \/ TRecover \/ TCert
TraceSpec == TraceInit /\ [][TraceNext]_tvars

Accepted ==
  LET d == TLCGet("stats").diameter
  IN IF d = Len(Recs) + 1 THEN TRUE
     ELSE /\ PrintT(<<"REJECTED", ToJson([at |-> d, ev |-> Recs[d]])>>)
          /\ FALSE
=============================================================================
