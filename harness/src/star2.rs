//! Large-scope drivers for the STAR / ADSS family: random scenarios recorded for
//! Trace_Star (C01, C02), byte-level tamper sweep (C05), ADSS size sweep (C16).
use crate::star::*;
use crate::star::oprf_randomness;
use crate::util::*;
use adss::Commune;
use ppoprf::ppoprf::Server as OprfServer;
use rand::seq::SliceRandom;
use rand::Rng;
use serde_json::{json, Value};
use sta_rs::{derive_ske_key, load_bytes, share_recover, Share};
use std::collections::HashMap;
use std::io::Write;

fn block_len(rng: &mut impl Rng) -> usize {
  const L: [usize; 16] = [0, 1, 15, 16, 17, 23, 24, 25, 157, 165, 166, 167, 331, 332, 333, 4096];
  L[rng.gen_range(0..L.len())]
}

fn rand_bytes(rng: &mut impl Rng, n: usize) -> Vec<u8> {
  let style = rng.gen_range(0..4);
  (0..n)
    .map(|i| match style {
      0 => rng.gen(),
      1 => 0u8,
      2 => 0xff,
      _ => (i % 251) as u8,
    })
    .collect()
}

fn opens(msg: &[u8], c: &RealClient) -> bool {
  let mut key = vec![0u8; 16];
  derive_ske_key(msg, &c.cfg.e, &mut key);
  let ct = sta_rs::Ciphertext::from_bytes(&c.ct);
  let pt = match guard(|| ct.decrypt(&key, "star_encrypt")) {
    Guard::Done(p) => p,
    _ => return false,
  };
  let m = match load_bytes(&pt) {
    Some(m) => m,
    None => return false,
  };
  if m != c.cfg.m.as_slice() {
    return false;
  }
  let rest = &pt[4 + m.len()..];
  match (&c.cfg.aux, rest.is_empty()) {
    (None, true) => true,
    (Some(a), false) => load_bytes(rest).map(|x| x == a.as_slice() && rest.len() == 4 + x.len()).unwrap_or(false),
    _ => false,
  }
}

/// `vh star-record --out F --seed S --scenarios N --maxt T --prop C01|C02`
pub fn record(a: &Args) -> Report {
  let prop = a.str("prop", "C01");
  let mut rep = Report::new(&format!("star-record-{prop}"));
  let seed = a.u64("seed", 1);
  let scenarios = a.u64("scenarios", 6);
  let maxt = a.u64("maxt", 64) as u32;
  let out = a.get("out").expect("--out");
  let mut f = std::io::BufWriter::new(std::fs::File::create(out).expect("create"));
  let oprf = OprfServer::new((0..=255u8).collect()).expect("oprf");
  for sc in 0..scenarios {
    let mut rng = rng_from(seed, 3000 + sc);
    writeln!(f, "{}", json!({"ev": "Reset"})).unwrap();
    // groups: a main group, a group differing only in threshold, one only in epoch, one in measurement
    // thresholds are swept, not sampled: scenario k uses t = k+1 up to `--sweep`, then large ones
    let sweep = a.u64("sweep", 0);
    let bigt = a.u64("bigt", 0) as u32;
    let t0: u32 = if bigt > 0 && sc + 1 == scenarios {
      bigt
    } else if sc < sweep {
      sc as u32 + 1
    } else {
      match sc % 6 {
        0 => 1,
        1 => 2,
        2 => rng.gen_range(3..8),
        3 => rng.gen_range(8..=maxt.max(9).min(32)),
        _ => rng.gen_range((maxt / 2).max(2)..=maxt),
      }
    };
    let n0 = block_len(&mut rng);
    let m0 = rand_bytes(&mut rng, n0);
    let n1 = [0usize, 1, 5, 32][rng.gen_range(0..4)];
    let e0 = rand_bytes(&mut rng, n1);
    let mut m1 = m0.clone();
    m1.push(7);
    let src = if sc % 3 == 2 { "oprf" } else { "local" };
    // the randomness server's tag is one byte: epochs of server-keyed groups are single bytes
    let e0 = if src == "oprf" { vec![rng.gen_range(0..255u8)] } else { e0 };
    let mut e1 = e0.clone();
    if src == "oprf" {
      e1[0] = e1[0].wrapping_add(1);
    } else {
      e1.push(1);
    }
    let groups: Vec<(Vec<u8>, Vec<u8>, u32, &str)> = vec![
      (m0.clone(), e0.clone(), t0, src),
      (m0.clone(), e0.clone(), t0 + 1, src),
      (m0.clone(), e1.clone(), t0, src),
      (m1.clone(), e0.clone(), t0.max(2) - 1, "local"),
    ];
    let mut clients: Vec<RealClient> = Vec::new();
    let mut cgroup: Vec<usize> = Vec::new();
    let mut xs: HashMap<Vec<u8>, u64> = HashMap::new();
    let counts = [t0 as usize + rng.gen_range(1..8), rng.gen_range(1..=(t0 as usize + 1)), rng.gen_range(1..4), rng.gen_range(1..4)];
    for (gi, g) in groups.iter().enumerate() {
      for _ in 0..counts[gi] {
        let (n2, n3) = (rng.gen_range(1..40), block_len(&mut rng));
        let aux = match rng.gen_range(0..4) {
          0 => None,
          1 => Some(vec![]),
          2 => Some(rand_bytes(&mut rng, n2)),
          _ => Some(rand_bytes(&mut rng, n3)),
        };
        let cc = ClientCfg { m: g.0.clone(), e: g.1.clone(), t: g.2, aux, src: g.3.to_string() };
        if let Some(c) = make_client(cc, &oprf, &mut rep) {
          let l = layout(&c.share_bytes).expect("layout of honest share");
          let x = c.share_bytes[l.s.0..l.s.0 + 24].to_vec();
          let n = xs.len() as u64 + 1;
          let xid = *xs.entry(x).or_insert(n);
          clients.push(c);
          cgroup.push(gi + 1);
          writeln!(f, "{}", json!({"ev":"Client","id":clients.len(),"g":gi+1 + (sc as usize)*10,"t":g.2,"x":xid})).unwrap();
        } else {
          rep.violation(&prop, "Message::generate", "generation-failed", "client could not report".into(), json!({"scenario": sc}));
        }
      }
    }
    let by_group = |g: usize| -> Vec<usize> { (0..clients.len()).filter(|i| cgroup[*i] == g).collect() };
    if by_group(1).len() < (t0 as usize).max(1) + 1 || (2..=4).any(|g| by_group(g).is_empty()) {
      // some client could not produce or round-trip its report (already recorded as a violation
      // above): the selections below need the full population
      rep.count("scenarios_skipped_incomplete_population", 1);
      continue;
    }
    // selections
    let nsel = if t0 > 128 { 5 } else { a.u64("selections", 40) };
    for k in 0..nsel {
      let main = by_group(1);
      let mut sel: Vec<usize> = Vec::new();
      let mut forge: Option<(usize, u32)> = None;
      let style = if prop == "C01" { [0, 1, 2, 3, 10, 11][(k % 6) as usize] } else { 4 + k % 6 };
      match style {
        0 => {
          // exactly t distinct, shuffled
          let mut m = main.clone();
          m.shuffle(&mut rng);
          sel = m[..t0 as usize].to_vec();
        }
        1 => {
          // all of them with earlier reports repeated in between: m0 m1 m0 m2 m1 m3 ... — a repeated
          // report that is NOT adjacent to its original sits among the first t
          let mut m = main.clone();
          m.shuffle(&mut rng);
          for (i, c) in m.iter().enumerate() {
            sel.push(*c);
            if i >= 1 {
              sel.push(m[i - 1]);
            }
          }
        }
        2 => {
          // t distinct with heavy repetition of the first one
          let mut m = main.clone();
          m.shuffle(&mut rng);
          sel.push(m[0]);
          sel.push(m[0]);
          sel.extend(&m[..t0 as usize]);
          sel.push(m[0]);
        }
        3 => {
          // surplus: every report, random order
          sel = main.clone();
          sel.shuffle(&mut rng);
        }
        10 => {
          // the t-th distinct report arrives arbitrarily late: one report repeated 2t+3 times, then
          // the other t-1 (a recovery that inspects only a bounded prefix of the list never sees them)
          let mut m = main.clone();
          m.shuffle(&mut rng);
          for _ in 0..2 * t0 as usize + 3 {
            sel.push(m[0]);
          }
          sel.extend(&m[1..(t0 as usize).max(1)]);
        }
        11 => {
          // every report three times in a row, t distinct in all: m0 m0 m0 m1 m1 m1 ...
          let mut m = main.clone();
          m.shuffle(&mut rng);
          for c in &m[..t0 as usize] {
            sel.extend([*c, *c, *c]);
          }
        }
        4 => {
          // t-1 distinct padded with duplicates
          let mut m = main.clone();
          m.shuffle(&mut rng);
          let d = (t0 as usize).saturating_sub(1);
          sel = m[..d].to_vec();
          for _ in 0..rng.gen_range(1..6) {
            if d > 0 {
              sel.push(m[rng.gen_range(0..d)]);
            }
          }
        }
        5 => {
          // t-1 distinct padded with foreign shares (other threshold / epoch / measurement)
          let mut m = main.clone();
          m.shuffle(&mut rng);
          sel = m[..(t0 as usize).saturating_sub(1)].to_vec();
          for g in 2..=4 {
            sel.extend(by_group(g));
          }
          if rng.gen() {
            sel.shuffle(&mut rng);
          }
        }
        6 => {
          // forged smaller threshold on the first share, t-1 distinct
          let mut m = main.clone();
          m.shuffle(&mut rng);
          sel = m[..(t0 as usize).saturating_sub(1).max(1)].to_vec();
          if t0 >= 2 {
            forge = Some((1, rng.gen_range(0..t0)));
          }
        }
        7 => {
          // forged larger threshold, all shares
          sel = main.clone();
          sel.shuffle(&mut rng);
          forge = Some((1, t0 + 1 + rng.gen_range(0..3)));
        }
        8 => {
          // forged threshold on a later share only (ignored by recover): t distinct still recover
          let mut m = main.clone();
          m.shuffle(&mut rng);
          sel = m[..t0 as usize].to_vec();
          if sel.len() >= 2 {
            forge = Some((sel.len(), rng.gen_range(0..t0 + 3)));
          }
        }
        _ => {
          // foreign first share followed by a full main group
          let g = rng.gen_range(2..=4);
          sel = vec![by_group(g)[0]];
          sel.extend(main.clone());
        }
      }
      if sel.is_empty() {
        continue;
      }
      let mut shares: Vec<Share> = Vec::new();
      let mut bad = false;
      for (i, c) in sel.iter().enumerate() {
        let mut b = clients[*c].share_bytes.clone();
        if let Some((p, t)) = forge {
          if p == i + 1 {
            b[..4].copy_from_slice(&t.to_le_bytes());
          }
        }
        match guard(|| Share::from_bytes(&b)) {
          Guard::Done(Some(s)) => shares.push(s),
          _ => bad = true,
        }
      }
      if bad {
        continue;
      }
      rep.evaluations += 1;
      let r = guard(|| share_recover(&shares).map(|c| c.get_message()).map_err(|e| e.to_string()));
      let (ok, grp, opened) = match &r {
        Guard::Done(Ok(msg)) => {
          let g = cgroup[sel[0]];
          let all = by_group(g).iter().all(|i| opens(msg, &clients[*i]));
          (1, g + (sc as usize) * 10, all as u8)
        }
        _ => (0, 0, 0),
      };
      let (fp, ft) = forge.map(|(p, t)| (p as i64, t as i64)).unwrap_or((0, 0));
      writeln!(
        f,
        "{}",
        json!({"ev":"Recover","sel": sel.iter().map(|c| c + 1).collect::<Vec<_>>(), "forge_pos": fp, "forge_thr": ft,
               "ok": ok, "grp": grp, "opened": opened})
      )
      .unwrap();
      rep.nontrivial(format!("{sc}:{k}"));
      if rep.samples.len() < 4 && k == 1 {
        rep.sample(json!({"scenario": sc, "threshold": t0, "clients": clients.len(), "selection_len": sel.len(),
          "style": style, "forge": forge.map(|x| json!([x.0, x.1])), "ok": ok}));
      }
    }
    rep.traces += 1;
  }
  f.flush().unwrap();
  rep
}

// ---------------------------------------------------------------------------
/// `vh tamper-sweep --seed S --positions all|stratified` (C05, byte level)
pub fn tamper_sweep(a: &Args) -> Report {
  let mut rep = Report::new("tamper-sweep");
  let seed = a.u64("seed", 1);
  let all = a.str("positions", "stratified") == "all";
  let mut rng = rng_from(seed, 4242);
  let oprf = OprfServer::new(vec![0, 1]).expect("oprf");
  // scenarios: (threshold, message len, coins len) at ADSS level, plus STAR-level reports
  let scen: Vec<(u32, usize, usize, bool)> =
    vec![(2, 32, 32, false), (3, 17, 0, false), (3, 0, 24, false), (1, 32, 32, false), (2, 32, 32, true), (4, 166, 9, false)];
  for (si, (t, lm, lr, star)) in scen.iter().enumerate() {
    let n = *t as usize + 2;
    let msg = rand_bytes(&mut rng, *lm);
    let coins = rand_bytes(&mut rng, *lr);
    let mut shares: Vec<Vec<u8>> = Vec::new();
    let mut truth: Vec<u8> = msg.clone();
    if *star {
      let m = rand_bytes(&mut rng, 20);
      for _ in 0..n {
        let c = make_client(ClientCfg { m: m.clone(), e: b"ep".to_vec(), t: *t, aux: None, src: "local".into() }, &oprf, &mut rep).unwrap();
        shares.push(c.share_bytes);
      }
      let dec: Vec<Share> = shares.iter().map(|b| Share::from_bytes(b).unwrap()).collect();
      truth = share_recover(&dec).map(|c| c.get_message()).unwrap_or_default();
    } else {
      for _ in 0..n {
        let c = Commune::new(*t, msg.clone(), coins.clone(), None);
        shares.push(c.share().expect("share").to_bytes());
      }
    }
    // a foreign sharing to mix in
    let foreign = Commune::new(*t, rand_bytes(&mut rng, 32), rand_bytes(&mut rng, 32), None).share().unwrap().to_bytes();
    let len = shares[0].len();
    let lay = layout(&shares[0]).unwrap();
    let mut offsets: Vec<usize> = Vec::new();
    if all {
      offsets = (0..len).collect();
    } else {
      for b in [0, 1, 3, 4, 7, lay.s.0, lay.s.0 + 15, lay.s.0 + 16, lay.s.0 + 23, lay.s.0 + 24, lay.s.0 + 40, lay.s.0 + 47,
                lay.s.1, lay.s.1 + 3, lay.c.0, lay.c.1.saturating_sub(1), lay.c.1, lay.d.0, lay.d.1.saturating_sub(1),
                lay.j.0, lay.j.0 + 31, lay.j.1 - 1] {
        if b < len {
          offsets.push(b);
        }
      }
      for _ in 0..24 {
        offsets.push(rng.gen_range(0..len));
      }
      offsets.sort();
      offsets.dedup();
    }
    // faults in TWO bytes of the first share's tag / ciphertexts: the same mask at offsets 16, 32,
    // 48, 1 and 8 apart, and two bytes exchanged (differences that cancel under a folded comparison)
    for (fname, (fa, fz)) in [("J", lay.j), ("C", lay.c), ("D", lay.d)] {
      if fz < fa + 2 {
        continue;
      }
      let flen = fz - fa;
      for i in (0..flen).step_by(if all { 1 } else { 5 }) {
        for dist in [16usize, 32, 48, 1, 8] {
          if i + dist >= flen {
            continue;
          }
          for kind in 0..3 {
            let mut b = shares[0].clone();
            match kind {
              0 => { b[fa + i] ^= 0x01; b[fa + i + dist] ^= 0x01; }
              1 => { b[fa + i] ^= 0xa5; b[fa + i + dist] ^= 0xa5; }
              _ => { b.swap(fa + i, fa + i + dist); }
            }
            if b == shares[0] {
              continue;
            }
            let mut coll: Vec<Vec<u8>> = shares.clone();
            coll[0] = b;
            let dec: Option<Vec<Share>> = coll.iter().map(|x| guard(|| Share::from_bytes(x)).ok().flatten()).collect();
            let dec = match dec { Some(d) => d, None => continue };
            rep.evaluations += 1;
            rep.nontrivial(format!("{si}:pair:{fname}:{i}:{dist}:{kind}"));
            if let Guard::Done(Ok(_)) = guard(|| share_recover(&dec).map(|c| c.get_message()).map_err(|e| e.to_string())) {
              rep.violation("C05", "share_recover", &format!("altered-first-share-accepted:{fname}-two-bytes"),
                format!("two altered bytes of field {fname} of the share that supplies the ciphertext (offsets {i} and {}, kind {kind}) were accepted", i + dist),
                json!({"scenario": si, "threshold": t, "field": fname, "offsets": [i, i + dist], "kind": kind, "star_level": star}));
            }
          }
        }
      }
    }
    for pos in [0usize, 1, *t as usize] {
      // pos: which share of the collection is altered (0 = the one supplying C/D/J;
      // 1 = among the first t distinct; t = surplus)
      if pos >= n {
        continue;
      }
      for off in &offsets {
        for df in 0..5 {
          let mut b = shares[pos].clone();
          let old = b[*off];
          b[*off] = match df {
            0 => old ^ 1,
            1 => old ^ 0x80,
            2 => old.wrapping_add(1),
            3 => 0x00,
            _ => 0xff,
          };
          if b[*off] == old {
            continue;
          }
          for with_foreign in [false, true] {
            if with_foreign && (df != 0 || off % 3 != 0) {
              continue;
            }
            let mut coll: Vec<Vec<u8>> = shares.clone();
            coll[pos] = b.clone();
            if with_foreign {
              coll.insert(1.min(coll.len()), foreign.clone());
            }
            rep.evaluations += 1;
            let mut dec: Vec<Share> = Vec::new();
            let mut undec = false;
            for x in &coll {
              match guard(|| Share::from_bytes(x)) {
                Guard::Done(Some(s)) => dec.push(s),
                _ => undec = true,
              }
            }
            if undec {
              rep.count("undecodable", 1);
              continue;
            }
            let field = if *off < 4 { "thr" } else if *off < 8 { "lenS" } else if *off < lay.s.0 + 24 { "x" }
              else if *off < lay.s.1 { "y" } else if *off < lay.c.0 { "lenC" } else if *off < lay.c.1 { "C" }
              else if *off < lay.d.0 { "lenD" } else if *off < lay.d.1 { "D" } else { "J" };
            rep.nontrivial(format!("{si}:{pos}:{off}:{df}:{with_foreign}"));
            let r = guard(|| share_recover(&dec).map(|c| c.get_message()).map_err(|e| e.to_string()));
            let replay = json!({"scenario": si, "threshold": t, "altered_share": pos, "offset": off, "field": field,
                                "data_fault": df, "foreign_mixed_in": with_foreign, "star_level": star});
            if let Guard::Done(Ok(m)) = &r {
              if *m != truth {
                rep.violation("C05", "share_recover", &format!("wrong-message:{field}"),
                  "recovery returned a message other than the one that was shared".into(), replay.clone());
              } else if pos == 0 && !(field == "x" && *t <= 1) && !(field == "y" && *lm == 0 && *lr == 0) {
                rep.violation("C05", "share_recover", &format!("altered-first-share-accepted:{field}"),
                  format!("an alteration of the share that supplies the ciphertext (field {field}) was accepted"), replay.clone());
              }
            }
            if rep.samples.len() < 4 && *off == lay.c.0 && df == 0 {
              rep.sample(json!({"case": replay, "outcome": match &r { Guard::Done(Ok(_)) => "ok", Guard::Done(Err(_)) => "err", _ => "panic" }}));
            }
          }
        }
      }
    }
    rep.traces += 1;
  }
  rep
}

// ---------------------------------------------------------------------------
/// `vh adss-sizes --seed S --tier quick|thorough` (C16 at large parameters)
pub fn adss_sizes(a: &Args) -> Report {
  let mut rep = Report::new("adss-sizes");
  let seed = a.u64("seed", 1);
  let thorough = a.str("tier", "quick") == "thorough";
  let mut rng = rng_from(seed, 1616);
  let lens: Vec<usize> = if thorough {
    vec![0, 1, 15, 16, 17, 23, 24, 25, 165, 166, 167, 331, 332, 333, 4096, 100_000]
  } else {
    vec![0, 1, 16, 24, 63, 64, 65, 166, 167, 333, 100_000]
  };
  let thrs: Vec<u32> = if thorough { vec![0, 1, 2, 3, 5, 16, 64, 65, 128, 129, 256, 257] } else { vec![0, 1, 2, 5, 32, 65, 129] };
  let mut cases: Vec<(usize, usize, u32)> = Vec::new();
  for (i, lm) in lens.iter().enumerate() {
    for (j, lr) in lens.iter().enumerate() {
      // stratified: full product on the small lengths, diagonal-ish on the large ones
      if thorough || (i + j) % 3 == 0 || *lm == 0 || *lr == 0 {
        let t = thrs[(i * 7 + j * 3) % thrs.len()];
        cases.push((*lm, *lr, t));
      }
    }
  }
  for t in &thrs {
    cases.push((32, 32, *t));
    cases.push((0, 0, *t));
  }
  // every threshold up to 40 in turn (a dealing path may depend on the threshold), and the
  // first values after each power of two
  for t in (0..=40u32).chain([63, 64, 66, 100, 127, 130, 255, 258].into_iter()) {
    if thorough || t <= 40 || t == 66 || t == 100 {
      cases.push((32, 32, t));
    }
  }
  for (ci, (lm, lr, t)) in cases.iter().enumerate() {
    if rep.too_many() {
      break;
    }
    let msg = rand_bytes(&mut rng, *lm);
    let coins = rand_bytes(&mut rng, *lr);
    let n = *t as usize + 2;
    let ctx = json!({"threshold": t, "message_len": lm, "coins_len": lr});
    let mut shares: Vec<adss::Share> = Vec::new();
    // alternately from fresh Commune objects and from clones of ONE Commune object
    let one = Commune::new(*t, msg.clone(), coins.clone(), None);
    for k in 0..n {
      match guard(|| if k % 2 == 0 { Commune::new(*t, msg.clone(), coins.clone(), None).share() } else { one.clone().share() }) {
        Guard::Done(Ok(s)) => shares.push(s),
        _ => {
          rep.violation("C16", "Commune::share", "share-failed", "share() failed".into(), ctx.clone());
        }
      }
    }
    if shares.len() < n {
      continue;
    }
    rep.evaluations += n as u64;
    // deterministic outside S, distinct points
    let enc: Vec<Vec<u8>> = shares.iter().map(|s| s.to_bytes()).collect();
    let l0 = layout(&enc[0]).unwrap();
    for e in &enc[1..] {
      let l = layout(e).unwrap();
      if e[..4] != enc[0][..4] || e[l.s.1..] != enc[0][l0.s.1..] {
        rep.violation("C16", "Commune::share", "non-deterministic-fields",
          "independent invocations differ outside the share point".into(), ctx.clone());
        break;
      }
      // the polynomial is the same: for t <= 1 even y coincides
      if *t <= 1 && e[l.s.0 + 24..l.s.1] != enc[0][l0.s.0 + 24..l0.s.1] {
        rep.violation("C16", "Commune::share", "constant-polynomial-differs",
          "threshold <= 1 but independent shares carry different y".into(), ctx.clone());
      }
    }
    let mut xs: Vec<&[u8]> = enc.iter().map(|e| &e[l0.s.0..l0.s.0 + 24]).collect();
    xs.sort();
    xs.dedup();
    if xs.len() != n {
      rep.violation("C16", "Commune::share", "repeated-point", "two invocations produced the same point".into(), ctx.clone());
    }
    // any t distinct recover M; t-1 do not; the recovered commune reshares compatibly
    let mut idx: Vec<usize> = (0..n).collect();
    idx.shuffle(&mut rng);
    let pick: Vec<adss::Share> = idx[..(*t as usize).max(1)].iter().map(|i| shares[*i].clone()).collect();
    rep.evaluations += 1;
    let r = guard(|| adss::recover(&pick).map_err(|e| e.to_string()));
    match (&r, *t) {
      (Guard::Done(Ok(_)), 0) => rep.violation("C16", "adss::recover", "zero-threshold-recovers",
        "threshold 0 recovered".into(), ctx.clone()),
      (Guard::Done(Ok(c)), _) => {
        if c.get_message() != msg {
          rep.violation("C16", "adss::recover", "wrong-message", "recovered message differs".into(), ctx.clone());
        }
        rep.nontrivial(format!("rec:{ci}"));
        if *t >= 2 {
          if let Guard::Done(Ok(ns)) = guard(|| c.clone().share()) {
            let mut mix: Vec<adss::Share> = idx[..(*t as usize) - 1].iter().map(|i| shares[*i].clone()).collect();
            mix.push(ns);
            rep.evaluations += 1;
            match guard(|| adss::recover(&mix).map(|c| c.get_message()).map_err(|e| e.to_string())) {
              Guard::Done(Ok(m)) if m == msg => {}
              _ => rep.violation("C16", "adss::recover", "reshare-does-not-combine",
                "a share of the recovered commune does not combine with the original shares".into(), ctx.clone()),
            }
          }
        }
      }
      (_, 0) => {
        rep.nontrivial(format!("zero:{ci}"));
      }
      _ => rep.violation("C16", "adss::recover", "recovery-failed",
        format!("t distinct shares did not recover{}", if r.is_panic() { " (panic)" } else { "" }), ctx.clone()),
    }
    if *t >= 2 {
      let few: Vec<adss::Share> = idx[..(*t as usize) - 1].iter().map(|i| shares[*i].clone()).collect();
      rep.evaluations += 1;
      if let Guard::Done(Ok(_)) = guard(|| adss::recover(&few).map_err(|e| e.to_string())) {
        rep.violation("C16", "adss::recover", "recovered-below-threshold", "t-1 shares recovered".into(), ctx.clone());
      }
    }
    // custom transcript shares are rejected by recover (which assumes the default transcript)
    if *t >= 1 && ci % 4 == 0 {
      let cs: Vec<adss::Share> = (0..(*t as usize))
        .filter_map(|_| Commune::new(*t, msg.clone(), coins.clone(), Some(custom_transcript())).share().ok())
        .collect();
      rep.evaluations += 1;
      if let Guard::Done(Ok(_)) = guard(|| adss::recover(&cs).map_err(|e| e.to_string())) {
        rep.violation("C16", "adss::recover", "custom-transcript-accepted",
          "shares created under a custom transcript were accepted".into(), ctx.clone());
      } else {
        rep.nontrivial(format!("tr:{ci}"));
      }
      // and they differ from default-transcript shares in J
      if let Some(c0) = cs.first() {
        let e = c0.to_bytes();
        if e[e.len() - 64..] == enc[0][enc[0].len() - 64..] {
          rep.violation("C16", "Commune::share", "transcript-not-authenticated",
            "the authentication tag does not depend on the transcript".into(), ctx.clone());
        }
      }
    }
    if rep.samples.len() < 4 && ci % 9 == 2 {
      rep.sample(json!({"case": ctx, "shares": n, "encoded_len": enc[0].len()}));
    }
  }
  rep.traces = 1;
  rep
}

#[allow(dead_code)]
fn _unused(_: Value) {}

// ---------------------------------------------------------------------------
/// `vh secret-scan --seed S --n N` (C02): no encoded report contains the measurement, a
/// derivation value or a key in the clear.  Secrets are obtained through the public API.
pub fn secret_scan(a: &Args) -> Report {
  use num_bigint::BigUint;
  let mut rep = Report::new("secret-scan");
  let seed = a.u64("seed", 1);
  let n = a.u64("n", 40);
  let mut rng = rng_from(seed, 5150);
  let oprf = OprfServer::new(vec![0, 1, 2, 3]).expect("oprf");
  let p: BigUint = (BigUint::from(1u8) << 128usize) + BigUint::from(12451u32);
  for i in 0..n {
    let t: u32 = rng.gen_range(2..6);
    let lm = [8usize, 9, 16, 24, 32, 33, 166, 300][rng.gen_range(0..8)];
    let m = rand_bytes(&mut rng, lm);
    let mut m = m;
    m[0] = i as u8;
    m[1] = 0x5a;
    let e = vec![rng.gen_range(0..4u8)];
    let src = if i % 4 == 3 { "oprf" } else { "local" };
    let mut cl: Vec<RealClient> = Vec::new();
    for _ in 0..t {
      let la = [8usize, 16, 40, 170][rng.gen_range(0..4)];
      let mut aux = rand_bytes(&mut rng, la);
      aux[0] = 0xa5;
      aux[1] = rng.gen();
      aux[2] = rng.gen();
      aux[3] = rng.gen();
      if let Some(c) = make_client(ClientCfg { m: m.clone(), e: e.clone(), t, aux: Some(aux), src: src.into() }, &oprf, &mut rep) {
        cl.push(c);
      }
    }
    if cl.len() < t as usize {
      continue;
    }
    let shares: Vec<Share> = cl.iter().filter_map(|c| Share::from_bytes(&c.share_bytes)).collect();
    let r0 = match guard(|| share_recover(&shares).map(|c| c.get_message()).map_err(|e| e.to_string())) {
      Guard::Done(Ok(m)) => m,
      _ => continue,
    };
    let mut key = vec![0u8; 16];
    derive_ske_key(&r0, &e, &mut key);
    // sharing key: constant term of the polynomial through the t inner shares
    let pts: Vec<(BigUint, BigUint)> = cl.iter().map(|c| {
      let l = layout(&c.share_bytes).unwrap();
      let s = &c.share_bytes[l.s.0..l.s.1];
      (BigUint::from_bytes_le(&s[..24]), BigUint::from_bytes_le(&s[24..48.min(s.len())]))
    }).collect();
    let mut k0 = BigUint::from(0u8);
    for (i1, (xi, yi)) in pts.iter().enumerate() {
      let mut num = BigUint::from(1u8);
      let mut den = BigUint::from(1u8);
      for (j, (xj, _)) in pts.iter().enumerate() {
        if j != i1 {
          num = num * xj % &p;
          den = den * ((xj + &p - xi) % &p) % &p;
        }
      }
      k0 = (k0 + yi * num % &p * den.modpow(&(&p - BigUint::from(2u8)), &p)) % &p;
    }
    let mut kbytes = k0.to_bytes_le();
    kbytes.resize(24, 0);
    let rnd = cl[0].rnd;
    let mut r1 = [0u8; 32];
    sta_rs::strobe_digest(&rnd, &[&[1u8]], "star_derive_randoms", &mut r1);
    let mut r2 = [0u8; 32];
    sta_rs::strobe_digest(&rnd, &[&[2u8]], "star_derive_randoms", &mut r2);
    for c in &cl {
      let bytes = &c.msg_bytes;
      let mut secrets: Vec<(&str, Vec<u8>)> = vec![
        ("measurement", m.clone()),
        ("client-randomness", rnd.to_vec()),
        ("r0 (shared message)", r0.clone()),
        ("r1 (coins)", r1.to_vec()),
        ("payload key", key.clone()),
        ("sharing key", kbytes[..16].to_vec()),
      ];
      if let Some(a) = &c.cfg.aux {
        secrets.push(("associated-data", a.clone()));
      }
      for (name, s) in secrets {
        rep.evaluations += 1;
        if let Some(off) = contains(bytes, &s) {
          rep.violation("C02", "Message::to_bytes", &format!("secret-in-clear:{name}"),
            format!("the encoded report contains the {name} at offset {off}"), json!({"case": i, "t": t, "source": src, "offset": off}));
        }
      }
      // positive control: the tag (public) is r2 and must be found, or the scan is vacuous
      if contains(bytes, &r2).is_some() {
        rep.count("positive_control_tag_found", 1);
      }
      rep.nontrivial(format!("scan:{i}:{}", hex(&c.share_bytes[8..16])));
    }
    if rep.samples.len() < 3 {
      rep.sample(json!({"case": i, "threshold": t, "measurement_len": lm, "source": src, "report_len": cl[0].msg_bytes.len(),
        "secrets_scanned": ["measurement","client-randomness","r0","r1","payload key","sharing key","associated-data"]}));
    }
  }
  rep.traces = 1;
  rep
}

/// `vh nonce-space --n N` (C03, "longer sequences"): N reports of ONE measurement under one epoch
/// and threshold, from 16 threads, with pairwise different associated data.  Two of them encrypted
/// under the same keystream agree on the encrypted constant prefix of the payload (length header
/// and measurement); a per-ciphertext nonce with too little entropy shows up as such a pair long
/// before 2^64 reports (a 32-bit nonce space: 99 % at 200 000).  Ciphertext windows of 12 bytes at
/// the plausible header offsets are indexed; an accidental match has probability < 2^-60.
pub fn nonce_space(a: &Args) -> Report {
  let mut rep = Report::new("nonce-space");
  let n = a.u64("n", 200_000) as usize;
  let threads = 16usize;
  let m: Vec<u8> = b"nonce-space-measurement!".to_vec();
  let results: Vec<Vec<(Vec<u8>, [u8; 8])>> = std::thread::scope(|s| {
    let hs: Vec<_> = (0..threads)
      .map(|ti| {
        let m = m.clone();
        s.spawn(move || {
          let mg = sta_rs::MessageGenerator::new(sta_rs::SingleMeasurement::new(&m), 2, b"epoch");
          let mut rnd = [0u8; 32];
          mg.sample_local_randomness(&mut rnd);
          let mut out = Vec::with_capacity(n / threads + 1);
          for i in 0..(n / threads) {
            let aux = ((ti * 1_000_000 + i) as u64).to_le_bytes();
            // every tenth report from a generator of its own (a fresh client), the others from one
            let msg = if i % 10 == 0 {
              let mg2 = sta_rs::MessageGenerator::new(sta_rs::SingleMeasurement::new(&m), 2, b"epoch");
              sta_rs::Message::generate(&mg2, &rnd, Some(sta_rs::AssociatedData::new(&aux))).ok()
            } else {
              sta_rs::Message::generate(&mg, &rnd, Some(sta_rs::AssociatedData::new(&aux))).ok()
            };
            if let Some(msg) = msg {
              out.push((msg.ciphertext.to_bytes(), aux));
            }
          }
          out
        })
      })
      .collect();
    hs.into_iter().map(|h| h.join().unwrap_or_default()).collect()
  });
  let all: Vec<(Vec<u8>, [u8; 8])> = results.into_iter().flatten().collect();
  let cts: Vec<&Vec<u8>> = all.iter().map(|(c, _)| c).collect();
  rep.evaluations += cts.len() as u64;
  let mut found = false;
  for h in [0usize, 8, 12, 16, 24, 32] {
    let mut seen: HashMap<Vec<u8>, usize> = HashMap::with_capacity(cts.len());
    let mut candidates: Vec<(usize, usize)> = Vec::new();
    for (i, ct) in cts.iter().enumerate() {
      if ct.len() < h + 12 {
        continue;
      }
      if let Some(j) = seen.insert(ct[h..h + 12].to_vec(), i) {
        candidates.push((j, i));
      }
    }
    // (a window on which MANY reports agree is a constant of the format, not a nonce)
    if candidates.len() * 100 > cts.len() {
      continue;
    }
    for (j, i) in candidates {
      {
        // same bytes on a window: confirm keystream reuse where the plaintexts differ — the
        // 8-byte associated data: ct_j xor ct_i equals aux_j xor aux_i at some offset
        let (a1, a2) = (cts[j], cts[i]);
        let want: Vec<u8> = all[j].1.iter().zip(all[i].1.iter()).map(|(x, y)| x ^ y).collect();
        let reuse = a1.len() == a2.len() && a1.len() >= 8
          && (0..=a1.len() - 8).any(|o| (0..8).all(|k| a1[o + k] ^ a2[o + k] == want[k]));
        if reuse {
          rep.violation("C03", "Ciphertext::new", "keystream-reuse:nonce-space",
            format!("reports #{j} and #{i} of {} reports of one measurement agree on the encrypted constant prefix (ciphertext offset {h}): they were encrypted under the same keystream", cts.len()),
            json!({"reports": cts.len(), "first": j, "second": i, "offset": h}));
          found = true;
          break;
        }
      }
    }
    if found {
      break;
    }
  }
  rep.nontrivial(format!("nonce-space:{}", cts.len()));
  rep.sample(json!({"reports_of_one_measurement": cts.len(), "threads": threads, "window_offsets": [0, 8, 12, 16, 24, 32]}));
  rep.traces = 1;
  rep
}

// ---------------------------------------------------------------------------
/// `vh cipher-check --seed S --groups N` (C03): associated data stays confidential below
/// threshold — not in clear, not decryptable with anything in the report, and no keystream
/// reuse between two reports of one measurement.
pub fn cipher_check(a: &Args) -> Report {
  let mut rep = Report::new("cipher-check");
  let seed = a.u64("seed", 1);
  let groups = a.u64("groups", 12);
  let mut rng = rng_from(seed, 303);
  let oprf = OprfServer::new(vec![0, 1, 2, 3]).expect("oprf");
  const AUXL: [usize; 14] = [1, 2, 8, 15, 16, 17, 100, 157, 165, 166, 167, 200, 332, 500];
  for g in 0..groups {
    // every fourth group is a long run of sub-threshold reports produced back to back in this
    // thread (a nonce that repeats with some period is only visible across such a run)
    let long_run = g % 4 == 1;
    let t: u32 = if long_run { 14 } else { rng.gen_range(3..7) };
    let lm = [0usize, 1, 8, 32, 150, 166, 170, 400][(g % 8) as usize];
    let m = rand_bytes(&mut rng, lm);
    let src = if g % 5 == 4 { "oprf" } else { "local" };
    // epochs of every length around the cipher's nonce and block sizes (an epoch that finds its way
    // into the nonce or the key schedule shows only for long ones); one byte for the randomness server
    const EPL: [usize; 12] = [1, 16, 0, 15, 17, 32, 13, 2, 166, 14, 24, 8];
    let e: Vec<u8> = if src == "oprf" { vec![(g % 4) as u8] } else {
      let mut v = rand_bytes(&mut rng, if long_run { [15usize, 16, 14, 13][(g as usize / 4) % 4] } else { EPL[(g as usize) % EPL.len()] });
      if !v.is_empty() { v[0] = (g % 4) as u8; }
      v
    };
    // a sequence of sub-threshold reports (2 or 3) with differing associated data
    let nrep = if long_run { 40 } else { 2 + (g % 2) as usize };
    let t: u32 = if long_run { 44 } else { t };
    let mut cl: Vec<RealClient> = Vec::new();
    let mut pts: Vec<Vec<u8>> = Vec::new();
    for r in 0..nrep {
      let la = if long_run { 20 + (g as usize % 3) * 70 } else { AUXL[((g as usize) * 3 + r * 5) % AUXL.len()] };
      let mut aux = rand_bytes(&mut rng, la);
      if la >= 1 {
        aux[0] = aux[0].wrapping_add(r as u8 + 1);
      }
      // same length, content differing in exactly one position (first / middle / last byte),
      // every other group: isolates the XOR question from length effects
      let aux = if g % 2 == 0 && r > 0 {
        let mut b = cl[0].cfg.aux.clone().unwrap();
        let n = b.len();
        let posn = match (g / 2 + r as u64) % 3 { 0 => 0, 1 => n / 2, _ => n - 1 };
        b[posn] ^= 0x55;
        b
      } else {
        aux
      };
      if let Some(c) = make_client(ClientCfg { m: m.clone(), e: e.clone(), t, aux: Some(aux), src: src.into() }, &oprf, &mut rep) {
        cl.push(c);
      }
    }
    // and reports produced from ONE MessageGenerator instance (one client object reporting the same
    // measurement several times with different associated data)
    if src == "local" {
      let mg = sta_rs::MessageGenerator::new(sta_rs::SingleMeasurement::new(&m), t, &e);
      let mut rnd = [0u8; 32];
      mg.sample_local_randomness(&mut rnd);
      for r in 0..3usize {
        let aux: Vec<u8> = (0..(9 + 31 * r + (g as usize % 5))).map(|i| (i as u8).wrapping_mul(7).wrapping_add(r as u8 * 91)).collect();
        if let Guard::Done(Ok(msg)) = guard(|| sta_rs::Message::generate(&mg, &rnd, Some(sta_rs::AssociatedData::new(&aux)))) {
          let bytes = msg.to_bytes();
          cl.push(RealClient {
            cfg: ClientCfg { m: m.clone(), e: e.clone(), t, aux: Some(aux), src: "local".into() },
            share_bytes: msg.share.to_bytes(), ct: msg.ciphertext.to_bytes(), tag: msg.tag.clone(), key: None, rnd, msg_bytes: bytes,
          });
        }
      }
    }
    // ... and a report of this measurement after a dozen reports of OTHER measurements on this
    // thread (per-key nonce state that is evicted and restarts when the key comes back)
    if src == "local" && !long_run && !cl.is_empty() {
      for k in 0..12u8 {
        let other: Vec<u8> = [m.as_slice(), &[0xee, k]].concat();
        let _ = make_client(ClientCfg { m: other, e: e.clone(), t, aux: Some(vec![k; 9]), src: "local".into() }, &oprf, &mut rep);
      }
      let mut again = cl[0].cfg.aux.clone().unwrap_or_default();
      if !again.is_empty() {
        let n = again.len();
        again[n / 2] ^= 0x3c;
      } else {
        again = vec![1, 2, 3];
      }
      if let Some(c) = make_client(ClientCfg { m: m.clone(), e: e.clone(), t, aux: Some(again), src: "local".into() }, &oprf, &mut rep) {
        cl.push(c);
      }
    }
    // ... and reports of the same measurement produced on OTHER threads, each the first thing its
    // thread does (a nonce built from per-process and per-thread state coincides exactly there)
    if src == "local" {
      let hs: Vec<_> = (0..3u8)
        .map(|k| {
          let (m2, e2) = (m.clone(), e.clone());
          std::thread::spawn(move || {
            let mg = sta_rs::MessageGenerator::new(sta_rs::SingleMeasurement::new(&m2), t, &e2);
            let mut rnd = [0u8; 32];
            mg.sample_local_randomness(&mut rnd);
            let aux: Vec<u8> = (0..40u8).map(|i| i.wrapping_mul(13).wrapping_add(k * 57 + 1)).collect();
            sta_rs::Message::generate(&mg, &rnd, Some(sta_rs::AssociatedData::new(&aux)))
              .ok()
              .map(|msg| (aux, rnd, msg.to_bytes(), msg.share.to_bytes(), msg.ciphertext.to_bytes(), msg.tag.clone()))
          })
        })
        .collect();
      for h in hs {
        if let Ok(Some((aux, rnd, bytes, sb, ct, tag))) = h.join() {
          cl.push(RealClient {
            cfg: ClientCfg { m: m.clone(), e: e.clone(), t, aux: Some(aux), src: "local".into() },
            share_bytes: sb, ct, tag, key: None, rnd, msg_bytes: bytes,
          });
        }
      }
    }
    if cl.len() < nrep {
      continue;
    }
    // plaintext payloads through the public API: a group of t clients reveals r0, hence the key
    let mut helpers: Vec<RealClient> = Vec::new();
    for _ in 0..t {
      if let Some(c) = make_client(ClientCfg { m: m.clone(), e: e.clone(), t, aux: None, src: src.into() }, &oprf, &mut rep) {
        helpers.push(c);
      }
    }
    let hs: Vec<Share> = helpers.iter().filter_map(|c| Share::from_bytes(&c.share_bytes)).collect();
    let r0 = match guard(|| share_recover(&hs).map(|c| c.get_message()).map_err(|e| e.to_string())) {
      Guard::Done(Ok(x)) => x,
      _ => continue,
    };
    let mut key = vec![0u8; 16];
    derive_ske_key(&r0, &e, &mut key);
    for c in &cl {
      let ct = sta_rs::Ciphertext::from_bytes(&c.ct);
      let pt = match guard(|| ct.decrypt(&key, "star_encrypt")) {
        Guard::Done(p) => p,
        _ => vec![],
      };
      pts.push(pt);
    }
    for (ci, c) in cl.iter().enumerate() {
      let bytes = &c.msg_bytes;
      let ctx = json!({"group": g, "threshold": t, "report": ci, "measurement_len": lm,
                       "aux_len": c.cfg.aux.as_ref().map(|a| a.len()), "source": src});
      // (a) never in the clear
      if let Some(aux) = &c.cfg.aux {
        if aux.len() >= 8 {
          rep.evaluations += 1;
          if let Some(off) = contains(bytes, aux) {
            rep.violation("C03", "Message::to_bytes", "aux-in-clear",
              format!("associated data appears in the clear at offset {off}"), ctx.clone());
          }
        }
      }
      // (b) nothing carried in the report decrypts the payload
      if pts[ci].len() >= 8 {
        let ct = sta_rs::Ciphertext::from_bytes(&c.ct);
        for wlen in [16usize, 32] {
          for off in 0..bytes.len().saturating_sub(wlen) + 1 {
            rep.evaluations += 1;
            let w = &bytes[off..off + wlen];
            if let Guard::Done(p) = guard(|| ct.decrypt(w, "star_encrypt")) {
              if p == pts[ci] || (pts[ci].len() >= 16 && contains(&p, &pts[ci][pts[ci].len() - 16..]).is_some()) {
                rep.violation("C03", "Ciphertext::new", "decryptable-with-report-value",
                  format!("the {wlen}-byte window at offset {off} of the report decrypts the payload"), ctx.clone());
              }
            }
          }
        }
        // ... nor through the PUBLIC derivation helpers: every 32-byte window taken as the shared
        // message r0 (key = derive_ske_key(window, epoch)) or as the client randomness
        // (r0 = strobe_digest(window, [0]); key = derive_ske_key(r0, epoch))
        for off in 0..bytes.len().saturating_sub(32) + 1 {
          let w = &bytes[off..off + 32];
          let mut k1 = vec![0u8; 16];
          derive_ske_key(w, &c.cfg.e, &mut k1);
          let mut r0 = [0u8; 32];
          sta_rs::strobe_digest(w, &[&[0u8]], "star_derive_randoms", &mut r0);
          let mut k2 = vec![0u8; 16];
          derive_ske_key(&r0, &c.cfg.e, &mut k2);
          for (how, k) in [("window as shared message", k1), ("window as client randomness", k2)] {
            rep.evaluations += 1;
            if let Guard::Done(p) = guard(|| ct.decrypt(&k, "star_encrypt")) {
              if p == pts[ci] {
                rep.violation("C03", "Message::to_bytes", "derivable-from-report-value",
                  format!("the 32-byte window at offset {off} of the report, used as {how}, yields the payload key"), ctx.clone());
              }
            }
          }
        }
        rep.nontrivial(format!("win:{g}:{ci}"));
      }
    }
    // (c) no keystream reuse: ct_a xor ct_b never equals pt_a xor pt_b on a 16-byte window
    //     that contains a differing plaintext byte (any constant header offset tried)
    for i in 0..cl.len() {
      for j in (i + 1)..cl.len() {
        let (ca, cb) = (&cl[i].ct, &cl[j].ct);
        let (pa, pb) = (&pts[i], &pts[j]);
        let n = pa.len().min(pb.len());
        if n < 16 || ca.len() < pa.len() || cb.len() < pb.len() {
          continue;
        }
        let hmax = (ca.len() - pa.len()).min(cb.len() - pb.len());
        let mut leaked: Option<(usize, usize)> = None;
        for h in 0..=hmax {
          for s in 0..=(n - 16) {
            if (s..s + 16).all(|k| pa[k] == pb[k]) {
              continue;
            }
            rep.evaluations += 1;
            if (s..s + 16).all(|k| ca[h + k] ^ cb[h + k] == pa[k] ^ pb[k]) {
              leaked = Some((h, s));
              break;
            }
          }
          if leaked.is_some() {
            break;
          }
        }
        rep.nontrivial(format!("xor:{g}:{i}:{j}"));
        if let Some((h, s)) = leaked {
          rep.violation("C03", "Ciphertext::new", "keystream-reuse",
            format!("two reports of one measurement: ciphertext difference equals plaintext difference on payload bytes {s}..{} (header {h})", s + 16),
            json!({"group": g, "threshold": t, "reports": [i, j], "aux_lens": [cl[i].cfg.aux.as_ref().map(|a| a.len()), cl[j].cfg.aux.as_ref().map(|a| a.len())], "source": src}));
        }
      }
    }
    if rep.samples.len() < 3 {
      rep.sample(json!({"group": g, "threshold": t, "reports_below_threshold": nrep, "measurement_len": lm,
        "aux_lens": cl.iter().map(|c| c.cfg.aux.as_ref().map(|a| a.len())).collect::<Vec<_>>(), "report_len": cl[0].msg_bytes.len()}));
    }
  }
  rep.traces = 1;
  rep
}

// ---------------------------------------------------------------------------
/// `vh length-sweep --prop C01|C03|C04|C16 --max N` — one fixed behaviour of the model (t distinct
/// reports of one group; two sub-threshold reports; two triples differing in their last byte)
/// instantiated at EVERY length 0..N of measurement / epoch / associated data / message / coins.
/// Byte strings of consecutive lengths are prefixes of one fixed random string, so strings of
/// neighbouring lengths differ only by trailing bytes.
pub fn length_sweep(a: &Args) -> Report {
  let prop = a.str("prop", "C01");
  let mut rep = Report::new(&format!("length-sweep-{prop}"));
  let seed = a.u64("seed", 1);
  let maxl = a.u64("max", 200) as usize;
  let mut rng = rng_from(seed, 2718);
  let base: Vec<u8> = (0..maxl + 8).map(|_| rng.gen()).collect();
  let oprf = OprfServer::new(vec![0, 1, 2]).expect("oprf");
  let mut seen_rnd: std::collections::HashMap<Vec<u8>, String> = std::collections::HashMap::new();
  let mut seen_tag: std::collections::HashMap<Vec<u8>, String> = std::collections::HashMap::new();
  for l in 0..=maxl {
    let s = base[..l].to_vec();
    match prop.as_str() {
      "C01" => {
        // measurement of length l (aux of another length), and aux of length l (measurement fixed)
        for (which, m, aux) in [("measurement", s.clone(), Some(base[..(l * 7) % 53].to_vec())),
                                ("aux", b"m".to_vec(), Some(s.clone())),
                                ("measurement-noaux", s.clone(), None),
                                ("epoch", b"m2".to_vec(), Some(vec![1, 2, 3]))] {
          let e = if which == "epoch" { s.clone() } else { vec![7] };
          let t = 2 + (l % 2) as u32;
          let mut cl: Vec<RealClient> = Vec::new();
          for k in 0..t {
            let a2 = if k == 0 { aux.clone() } else { aux.clone().map(|mut v| { v.push(k as u8); v }) };
            if let Some(c) = make_client(ClientCfg { m: m.clone(), e: e.clone(), t, aux: a2, src: "local".into() }, &oprf, &mut rep) {
              cl.push(c);
            }
          }
          rep.evaluations += 1;
          let ctx = json!({"dimension": which, "length": l, "threshold": t});
          let shares: Vec<Share> = cl.iter().filter_map(|c| Share::from_bytes(&c.share_bytes)).collect();
          match guard(|| share_recover(&shares).map(|c| c.get_message()).map_err(|e| e.to_string())) {
            Guard::Done(Ok(r0)) => {
              if !cl.iter().all(|c| opens(&r0, c)) {
                rep.violation("C01", "Ciphertext::decrypt", &format!("length-sweep:report-does-not-open:{which}"),
                  format!("{which} of length {l}: a report does not open to its measurement and associated data"), ctx);
              } else {
                rep.nontrivial(format!("{which}:{l}"));
              }
            }
            _ => rep.violation("C01", "share_recover", &format!("length-sweep:recovery-failed:{which}"),
              format!("{which} of length {l}: t distinct reports do not recover"), ctx),
          }
        }
      }
      "C04" => {
        // randomness / tag distinct for every length of measurement and of epoch (prefix family)
        for (which, m, e) in [("measurement", s.clone(), vec![9u8]), ("epoch", vec![9u8], s.clone())] {
          let mg = sta_rs::MessageGenerator::new(sta_rs::SingleMeasurement::new(&m), 2, &e);
          let mut rnd = [0u8; 32];
          mg.sample_local_randomness(&mut rnd);
          rep.evaluations += 1;
          let id = format!("{which}:{l}");
          if let Some(prev) = seen_rnd.insert(rnd.to_vec(), id.clone()) {
            rep.violation("C04", "sample_local_randomness", "length-sweep:different-triples-same-randomness",
              format!("triples {prev} and {id} (prefixes of one string) derive the same randomness"), json!({"a": prev, "b": id}));
          }
          if let Guard::Done(Ok(w)) = guard(|| mg.share_with_local_randomness()) {
            if let Some(prev) = seen_tag.insert(w.tag.to_vec(), id.clone()) {
              rep.violation("C04", "share_with_local_randomness", "length-sweep:different-triples-same-tag",
                format!("triples {prev} and {id} share a tag"), json!({"a": prev, "b": id}));
            }
            let mut kk = w.key.to_vec();
            kk.push(0xEE);
            if let Some(prev) = seen_tag.insert(kk, id.clone()) {
              rep.violation("C04", "share_with_local_randomness", "length-sweep:different-triples-same-key",
                format!("triples {prev} and {id} share a key"), json!({"a": prev, "b": id}));
            }
          }
          rep.nontrivial(id);
        }
      }
      "C03" => {
        // two sub-threshold reports whose aux (length l >= 1) differ in the LAST byte only,
        // for three measurement lengths
        if l == 0 {
          continue;
        }
        for lm in [0usize, 5, 41] {
          let m = base[100..100 + lm].to_vec();
          let mut a1 = s.clone();
          let mut a2 = s.clone();
          a1[l - 1] = 0x11;
          a2[l - 1] = 0x99;
          let t = 3;
          let mk = |aux: Vec<u8>, rep: &mut Report| make_client(ClientCfg { m: m.clone(), e: vec![1], t, aux: Some(aux), src: "local".into() }, &oprf, rep);
          let (c1, c2, c3) = match (mk(a1.clone(), &mut rep), mk(a2.clone(), &mut rep), mk(vec![], &mut rep)) {
            (Some(a), Some(b), Some(c)) => (a, b, c),
            _ => continue,
          };
          let shares: Vec<Share> = [&c1, &c2, &c3].iter().filter_map(|c| Share::from_bytes(&c.share_bytes)).collect();
          let r0 = match guard(|| share_recover(&shares).map(|c| c.get_message()).map_err(|e| e.to_string())) {
            Guard::Done(Ok(x)) => x,
            _ => continue,
          };
          let mut key = vec![0u8; 16];
          derive_ske_key(&r0, &[1], &mut key);
          let p1 = sta_rs::Ciphertext::from_bytes(&c1.ct).decrypt(&key, "star_encrypt");
          let p2 = sta_rs::Ciphertext::from_bytes(&c2.ct).decrypt(&key, "star_encrypt");
          rep.evaluations += 1;
          let n = p1.len().min(p2.len());
          if n == 0 || c1.ct.len() < p1.len() || c2.ct.len() < p2.len() {
            continue;
          }
          // the differing byte is the last payload byte: compare the last min(16, n) bytes
          let w = 16.min(n);
          let hmax = (c1.ct.len() - p1.len()).min(c2.ct.len() - p2.len());
          let mut leak = false;
          for h in 0..=hmax {
            if (n - w..n).all(|k| c1.ct[h + k] ^ c2.ct[h + k] == p1[k] ^ p2[k]) && (w >= 8 || (0..n).all(|k| c1.ct[h + k] ^ c2.ct[h + k] == p1[k] ^ p2[k])) {
              if w >= 8 {
                leak = true;
              }
            }
          }
          rep.nontrivial(format!("aux:{l}:{lm}"));
          if leak {
            rep.violation("C03", "Ciphertext::new", "length-sweep:keystream-reuse",
              format!("aux length {l}, measurement length {lm}: two reports differing in their last aux byte share a keystream"),
              json!({"aux_len": l, "measurement_len": lm}));
          }
          if l >= 8 && (contains(&c1.msg_bytes, &a1).is_some() || contains(&c2.msg_bytes, &a2).is_some()) {
            rep.violation("C03", "Message::to_bytes", "length-sweep:aux-in-clear",
              format!("aux of length {l} appears in the clear"), json!({"aux_len": l}));
          }
        }
      }
      _ => {
        // C16: message / coins of every length, thresholds 1..3, independent invocations combine
        for (lm, lr) in [(l, (l * 5) % 37), ((l * 3) % 41, l), (l, l), (l, 0), (0, l)] {
          let t = 1 + (l % 3) as u32;
          let msg = base[..lm].to_vec();
          let coins = base[3..3 + lr].to_vec();
          let sh: Vec<adss::Share> = (0..t).filter_map(|_| Commune::new(t, msg.clone(), coins.clone(), None).share().ok()).collect();
          rep.evaluations += 1;
          let ctx = json!({"message_len": lm, "coins_len": lr, "threshold": t});
          match guard(|| adss::recover(&sh).map(|c| c.get_message()).map_err(|e| e.to_string())) {
            Guard::Done(Ok(m)) if m == msg => {
              rep.nontrivial(format!("{lm}:{lr}:{t}"));
            }
            _ => rep.violation("C16", "adss::recover", "length-sweep:recovery-failed",
              format!("message length {lm}, coins length {lr}, threshold {t}: t independently produced shares do not recover the message"), ctx),
          }
        }
      }
    }
  }
  rep.sample(json!({"property": prop, "lengths": format!("0..={maxl}"), "family": "prefixes of one random string"}));
  rep.traces = 1;
  rep
}

// ---------------------------------------------------------------------------
/// `vh generator-reuse --seed S` (C01): a report is a function of (measurement, epoch, threshold,
/// associated data, the 32-byte randomness) — not of what the `MessageGenerator` object was used
/// for before.  One generator object is used with a first randomness value (locally derived, or via
/// `share_with_local_randomness`) and then with a second one (from the randomness server); the second
/// report must combine with the reports of clients that only ever used the second value.
pub fn generator_reuse(a: &Args) -> Report {
  let mut rep = Report::new("generator-reuse");
  let seed = a.u64("seed", 1);
  let mut rng = rng_from(seed, 4711);
  let oprf = OprfServer::new(vec![0, 1, 2, 3]).expect("oprf");
  // a generator kept by a client and pointed at ANOTHER measurement through its public field `x`:
  // randomness, key and tag must be those of a fresh generator for the new measurement (C04: a
  // function of exactly (measurement, epoch, threshold) — not of what the object was built with)
  for case in 0..6u64 {
    let t: u32 = 2 + (case % 3) as u32;
    let e = vec![0x30 + case as u8; (case % 3) as usize * 9];
    let m1 = rand_bytes(&mut rng, 12);
    let m2 = rand_bytes(&mut rng, [1usize, 12, 200][(case % 3) as usize]);
    let mut kept = sta_rs::MessageGenerator::new(sta_rs::SingleMeasurement::new(&m1), t, &e);
    let mut r_first = [0u8; 32];
    kept.sample_local_randomness(&mut r_first);
    if case % 2 == 0 {
      let _ = guard(|| kept.share_with_local_randomness().is_ok());
    }
    kept.x = sta_rs::SingleMeasurement::new(&m2);
    let fresh = sta_rs::MessageGenerator::new(sta_rs::SingleMeasurement::new(&m2), t, &e);
    let (mut ra, mut rb) = ([0u8; 32], [0u8; 32]);
    kept.sample_local_randomness(&mut ra);
    fresh.sample_local_randomness(&mut rb);
    rep.evaluations += 1;
    let ctx = json!({"case": case, "threshold": t, "epoch_len": e.len(), "second_measurement_len": m2.len()});
    if ra != rb {
      rep.violation("C04", "MessageGenerator::sample_local_randomness", "generator-reuse:randomness-of-the-old-measurement",
        "a generator whose measurement was replaced derives randomness that differs from a fresh generator's for the same (measurement, epoch, threshold)".into(), ctx.clone());
    }
    if let (Guard::Done(Ok(wa)), Guard::Done(Ok(wb))) = (guard(|| kept.share_with_local_randomness()), guard(|| fresh.share_with_local_randomness())) {
      if wa.tag != wb.tag || wa.key != wb.key {
        rep.violation("C04", "MessageGenerator::share_with_local_randomness", "generator-reuse:tag-or-key-of-the-old-measurement",
          "a generator whose measurement was replaced produces a tag / key that differs from a fresh generator's".into(), ctx.clone());
      }
    }
    rep.nontrivial(format!("reuse-field:{case}"));
  }
  for case in 0..12u64 {
    let t: u32 = 2 + (case % 3) as u32;
    let m = rand_bytes(&mut rng, [5usize, 32, 170][(case % 3) as usize]);
    let e = vec![(case % 4) as u8];
    let rnd2 = match oprf_randomness(&oprf, &m, e[0], case % 2 == 0) {
      Some(r) => r,
      None => continue,
    };
    // the reused generator
    let mg = sta_rs::MessageGenerator::new(sta_rs::SingleMeasurement::new(&m), t, &e);
    let mut rnd1 = [0u8; 32];
    mg.sample_local_randomness(&mut rnd1);
    let first_use = match case % 3 {
      0 => guard(|| sta_rs::Message::generate(&mg, &rnd1, None).is_ok()),
      1 => guard(|| mg.share_with_local_randomness().is_ok()),
      _ => guard(|| sta_rs::Message::generate(&mg, &rnd1, Some(sta_rs::AssociatedData::new(b"first"))).is_ok()),
    };
    let _ = first_use;
    let second = match guard(|| sta_rs::Message::generate(&mg, &rnd2, Some(sta_rs::AssociatedData::new(b"second use")))) {
      Guard::Done(Ok(x)) => x,
      _ => continue,
    };
    // other clients, fresh generators, second randomness only
    let mut shares: Vec<Share> = vec![second.share.clone()];
    let mut others = Vec::new();
    for k in 0..t {
      let g2 = sta_rs::MessageGenerator::new(sta_rs::SingleMeasurement::new(&m), t, &e);
      if let Guard::Done(Ok(x)) = guard(|| sta_rs::Message::generate(&g2, &rnd2, Some(sta_rs::AssociatedData::new(&[k as u8; 9])))) {
        shares.push(x.share.clone());
        others.push(x);
      }
    }
    rep.evaluations += 1;
    let first_name = ["generate(rnd1)", "share_with_local_randomness", "generate(rnd1, aux)"][(case % 3) as usize];
    let ctx = json!({"case": case, "threshold": t, "first_use": first_name});
    if others.iter().any(|o| o.tag != second.tag) {
      rep.violation("C01", "Message::generate", "generator-reuse:tag-ignores-randomness",
        "the tag of a report generated with the second randomness differs from the tag other clients derive from that randomness".into(), ctx.clone());
    }
    for order in 0..2 {
      let sel: Vec<Share> = if order == 0 { shares[..t as usize].to_vec() } else { shares.iter().rev().take(t as usize).cloned().collect() };
      match guard(|| share_recover(&sel).map(|c| c.get_message()).map_err(|e| e.to_string())) {
        Guard::Done(Ok(r0)) => {
          let mut key = vec![0u8; 16];
          derive_ske_key(&r0, &e, &mut key);
          let pt = second.ciphertext.decrypt(&key, "star_encrypt");
          let good = load_bytes(&pt).map(|x| x == m.as_slice()).unwrap_or(false);
          if !good {
            rep.violation("C01", "Message::generate", "generator-reuse:report-does-not-open",
              "the report generated on second use does not open under the group's key".into(), ctx.clone());
          } else {
            rep.nontrivial(format!("{case}:{order}"));
          }
        }
        _ => rep.violation("C01", "share_recover", "generator-reuse:recovery-failed",
          "a report generated from a re-used MessageGenerator (second randomness) does not combine with the other clients' reports".into(), ctx.clone()),
      }
    }
    rep.sample(ctx);
  }
  rep.traces = 1;
  rep
}
