//! Wire family (C08, C09, C15): the byte strings enumerated by TLC (MC_WireFaults) replayed
//! into the real decoders (binding A); decoder calls on honest / mutated / random strings
//! logged for Trace_Wire (binding C); crash sweep over every consumer of foreign data (C09).
use crate::star::{layout, make_client, oprf_randomness, ClientCfg};
use crate::util::*;
use adss::Commune;
use base64::{engine::Engine as _, prelude::BASE64_STANDARD};
use ppoprf::ppoprf::{Client, Evaluation, Point, ProofDLEQ, Server, ServerPublicKey};
use rand::Rng;
use serde_json::{json, Value};
use sta_rs::{share_recover, Message};
use star_sharks::Sharks;
use std::convert::TryFrom;
use std::io::Write;

/// decoder under guard: (accepted, re-encoding, panicked)
fn dec(which: &str, b: &[u8]) -> (bool, Vec<u8>, bool) {
  let r = match which {
    "sharks" => guard(|| star_sharks::Share::try_from(b).ok().map(|s| Vec::<u8>::from(&s))),
    "adss" => guard(|| adss::Share::from_bytes(b).map(|s| s.to_bytes())),
    "star_share" => guard(|| sta_rs::Share::from_bytes(b).map(|s| s.to_bytes())),
    "message" => guard(|| Message::from_bytes(b).map(|m| m.to_bytes())),
    "pk" => guard(|| ServerPublicKey::load_from_bincode(b).ok().and_then(|p| p.serialize_to_bincode().ok())),
    "proof" => guard(|| ProofDLEQ::load_from_bincode(b).ok().and_then(|p| p.serialize_to_bincode().ok())),
    _ => Guard::Done(None),
  };
  match r {
    Guard::Done(Some(v)) => (true, v, false),
    Guard::Done(None) => (false, vec![], false),
    Guard::Panic(_) => (false, vec![], true),
  }
}

fn c09_panic(rep: &mut Report, site: &str, class: &str, detail: String, replay: Value) {
  rep.violation("C09", site, class, detail, replay);
}

/// `vh wire-replay --lines F --prop C08|C09`
pub fn replay(a: &Args) -> Report {
  let prop = a.str("prop", "C08");
  let mut rep = Report::new(&format!("wire-replay-{prop}"));
  for l in read_lines(a.get("lines").expect("--lines")) {
    let v: Value = serde_json::from_str(&l).expect("line");
    let msg = json_bytes(&v["msg"]);
    let inner = json_bytes(&v["inner"]);
    let faults = v["faults"].to_string();
    for (which, bytes, ok, canon) in [
      ("message", &msg, v["ok"].as_u64() == Some(1), json_bytes(&v["canon"])),
      ("adss", &inner, v["iok"].as_u64() == Some(1), json_bytes(&v["icanon"])),
      ("star_share", &inner, v["iok"].as_u64() == Some(1), json_bytes(&v["icanon"])),
    ] {
      rep.evaluations += 1;
      let (got, reenc, panicked) = dec(which, bytes);
      let replay = json!({"decoder": which, "bytes": bytes, "faults": v["faults"], "expected_accept": ok});
      if panicked {
        if prop == "C09" {
          let class = if bytes.len() < 4 { "len<4".to_string() } else { format!("panic:{faults}") };
          c09_panic(&mut rep, &format!("decoder:{which}"), &class,
            format!("decoder {which} panicked on a {}-byte input (faults {faults})", bytes.len()), replay.clone());
        }
        // for C08 a panic is "not accepted"
      }
      if prop == "C08" {
        // accepted => well-formed for the independent parser.  Refusing is always allowed here: the
        // seed encodings of the model are synthetic (short tags, tiny ciphertexts) and a decoder may
        // insist on the shapes honest reports have; that honest encodings are accepted and round-trip
        // is demanded of the values produced by the real encoder (`Honest` events of wire-record)
        rep.count(if got == ok { "verdicts_equal_to_parser" } else { "refusals_of_inputs_the_parser_would_accept" }, 1);
        if got && !ok {
          rep.violation("C08", &format!("decoder:{which}"), if ok { "valid-rejected" } else { "malformed-accepted" },
            format!("independent parser says accept={ok}, decoder {which} says accept={got} (faults {faults})"), replay.clone());
        } else if got && !matches!(dec(which, &reenc), (true, ref again, _) if *again == reenc) {
          rep.violation("C08", &format!("decoder:{which}"), "reencoding-not-accepted",
            format!("the decoder accepted the input but refuses (or changes) the encoding of the value it returned (faults {faults})"), replay.clone());
        } else if got && reenc != canon {
          rep.violation("C08", &format!("decoder:{which}"), "reencoding-differs",
            format!("re-encoding of the accepted value is not the canonical form of the input (faults {faults})"), replay.clone());
        }
      }
      if !ok || !v["faults"].as_array().map(|a| a.is_empty()).unwrap_or(true) {
        rep.nontrivial(format!("{which}:{}", hex(&bytes[..bytes.len().min(64)])) + &faults + &bytes.len().to_string());
      }
      // C09: whatever was accepted is then handed to recovery
      if prop == "C09" && got && which == "star_share" {
        if let Some(s) = sta_rs::Share::from_bytes(bytes) {
          rep.evaluations += 1;
          if guard(|| share_recover(&[s.clone(), s.clone()]).is_ok()).is_panic() {
            c09_panic(&mut rep, "share_recover", &format!("panic:{faults}"),
              format!("share_recover panicked on an accepted share (faults {faults})"), replay.clone());
          }
        }
      }
    }
    if rep.samples.len() < 4 && rep.evaluations % 211 == 3 {
      rep.sample(json!({"faults": v["faults"], "message_len": msg.len(), "predicted_accept": v["ok"], "inner_predicted_accept": v["iok"]}));
    }
  }
  rep.traces = 1;
  rep
}

// ---------------------------------------------------------------------------
fn honest_values(rng: &mut impl Rng, n: usize, rep: &mut Report) -> Vec<(&'static str, Vec<u8>)> {
  let mut out: Vec<(&'static str, Vec<u8>)> = Vec::new();
  let oprf = Server::new(vec![0, 1, 2]).expect("oprf");
  for i in 0..n {
    let t = [1u32, 2, 3, 5][i % 4];
    let lm = [0usize, 1, 24, 100][i % 4];
    let m: Vec<u8> = (0..lm).map(|_| rng.gen()).collect();
    let aux = match i % 3 { 0 => None, 1 => Some(vec![]), _ => Some((0..(i % 40)).map(|_| rng.gen()).collect()) };
    if let Some(c) = make_client(ClientCfg { m, e: vec![(i % 3) as u8], t, aux, src: if i % 5 == 4 { "oprf".into() } else { "local".into() } }, &oprf, rep) {
      out.push(("message", c.msg_bytes.clone()));
      out.push(("adss", c.share_bytes.clone()));
      let l = layout(&c.share_bytes).unwrap();
      out.push(("sharks", c.share_bytes[l.s.0..l.s.1].to_vec()));
    }
    // direct adss sharings with empty / odd-length fields and several secret elements at sharks level
    let lc = [0usize, 1, 7, 33][i % 4];
    if let Ok(s) = Commune::new(t, vec![7u8; lc], vec![9u8; (i * 5) % 11], None).share() {
      out.push(("adss", s.to_bytes()));
    }
    let k = i % 4;
    let secret: Vec<u8> = (0..k).flat_map(|j| { let mut e = vec![0u8; 24]; e[0] = j as u8 + 1; e[15] = 0xff; e }).collect();
    if let Ok(ev) = Sharks(t.max(1)).dealer_rng(&secret, rng) {
      for s in ev.take(2) {
        out.push(("sharks", Vec::<u8>::from(&s)));
      }
    }
  }
  // public keys over several tag-set sizes, proofs from real requests
  for nt in [0usize, 1, 2, 5, 17] {
    let tags: Vec<u8> = (0..nt).map(|i| (i * 13 % 256) as u8).collect();
    if let Ok(s) = Server::new(tags.clone()) {
      if let Ok(b) = s.get_public_key().serialize_to_bincode() {
        out.push(("pk", b));
      }
      if let Some(md) = tags.first() {
        let (p, _) = Client::blind(b"wire");
        if let Ok(ev) = s.eval(&p, *md, true) {
          if let Some(pr) = ev.proof {
            if let Ok(b) = pr.serialize_to_bincode() {
              out.push(("proof", b));
            }
          }
        }
      }
    }
  }
  out
}

/// `vh wire-record --out F --seed S --n N --tier quick|thorough --decoders a,b`
pub fn record(a: &Args) -> Report {
  let mut rep = Report::new("wire-record");
  let seed = a.u64("seed", 1);
  let thorough = a.str("tier", "quick") == "thorough";
  let only: Vec<String> = a.str("decoders", "sharks,adss,message,pk,proof").split(',').map(|s| s.to_string()).collect();
  let mut rng = rng_from(seed, 808);
  let out = a.get("out").expect("--out");
  let mut f = std::io::BufWriter::new(std::fs::File::create(out).expect("create"));
  let vals = honest_values(&mut rng, a.u64("n", 6) as usize, &mut rep);
  let mut emit = |which: &str, b: &[u8], note: &str, rep: &mut Report, f: &mut dyn Write| {
    let (ok, reenc, panicked) = dec(which, b);
    rep.evaluations += 1;
    writeln!(f, "{}", json!({"ev":"Decode","dec":which,"bytes":b,"ok": ok as u8,"reenc":reenc,"note":note,"panic":panicked as u8,"must":0})).unwrap();
    rep.nontrivial(format!("{which}:{note}:{}:{}", b.len(), hex(&b[..b.len().min(48)])));
    // what a decoder accepts is a VALUE: the encoding of that value decodes again, to the same
    // value ("decoding its encoding yields an equal value" holds for decoded values too)
    if ok && reenc != b {
      let (ok2, reenc2, p2) = dec(which, &reenc);
      rep.evaluations += 1;
      writeln!(f, "{}", json!({"ev":"Decode","dec":which,"bytes":reenc,"ok": ok2 as u8,"reenc":reenc2,"note":"reenc-of-accepted","panic":p2 as u8,"must":1})).unwrap();
    }
  };
  for (vi, (which, b)) in vals.iter().enumerate() {
    if !only.iter().any(|d| d == which) {
      continue;
    }
    let (ok, reenc, _) = dec(which, b);
    rep.evaluations += 1;
    writeln!(f, "{}", json!({"ev":"Honest","dec":which,"bytes":b,"ok": ok as u8, "roundtrip": (ok && reenc == *b) as u8, "note":"honest"})).unwrap();
    if !(ok && reenc == *b) {
      rep.violation(if *which == "pk" || *which == "proof" { "C15" } else { "C08" }, &format!("decoder:{which}"), "honest-roundtrip",
        "decode(encode(v)) != v for an honestly generated value".into(), json!({"decoder": which, "bytes": b}));
    }
    let n = b.len();
    // prefixes
    let step = if thorough || n <= 80 { 1 } else { 1 + n / 60 };
    let mut cut = 0;
    while cut < n {
      emit(which, &b[..cut], "prefix", &mut rep, &mut f);
      cut += if cut < 12 || n - cut < 70 { 1 } else { step };
    }
    // byte / bit faults
    let noff = if thorough { n } else { 40.min(n) };
    for k in 0..noff {
      let off = if thorough { k } else { (k * 7919 + vi * 13) % n };
      for df in 0..(if thorough { 5 } else { 2 }) {
        let mut c = b.clone();
        c[off] = match df { 0 => c[off] ^ 1, 1 => c[off] ^ 0x80, 2 => c[off].wrapping_add(1), 3 => 0, _ => 0xff };
        if c[off] != b[off] {
          emit(which, &c, "bytefault", &mut rep, &mut f);
        }
      }
    }
    // every field-element position overwritten with p-1 (canonical), p, p+1, 2^129, high limb
    if *which != "pk" && *which != "proof" {
      let (s0, s1) = match *which {
        "sharks" => (0usize, n),
        "adss" => layout(b).map(|l| (l.s.0, l.s.1)).unwrap_or((0, 0)),
        _ => {
          // message: len ct | ct | len share | share...
          let h2 = 4 + u32::from_le_bytes([b[0], b[1], b[2], b[3]]) as usize;
          layout(&b[h2 + 4..]).map(|l| (h2 + 4 + l.s.0, h2 + 4 + l.s.1)).unwrap_or((0, 0))
        }
      };
      let pbytes: [u8; 24] = { let mut e = [0u8; 24]; e[0] = 163; e[1] = 48; e[16] = 1; e };
      let mut pos = s0;
      while pos + 24 <= s1 {
        for (nm, delta) in [("p-1", -1i32), ("p", 0), ("p+1", 1)] {
          let mut c = b.clone();
          let mut e = pbytes;
          e[0] = (e[0] as i32 + delta) as u8;
          c[pos..pos + 24].copy_from_slice(&e);
          emit(which, &c, nm, &mut rep, &mut f);
        }
        let mut c = b.clone();
        c[pos + 16] = 2;
        emit(which, &c, "2^129", &mut rep, &mut f);
        let mut c = b.clone();
        c[pos + 23] = 1;
        emit(which, &c, "high-limb", &mut rep, &mut f);
        pos += 24;
      }
    }
    // trailing bytes
    for extra in [1usize, 4, 24, 64] {
      let mut c = b.clone();
      c.extend(vec![0xEE; extra]);
      emit(which, &c, "trailing", &mut rep, &mut f);
    }
    // splice with the next value of the same kind at a random cut
    if let Some((_, other)) = vals.iter().skip(vi + 1).find(|(w, _)| w == which) {
      for _ in 0..3 {
        let c1 = rng.gen_range(0..=n);
        let c2 = rng.gen_range(0..=other.len());
        let mut c = b[..c1].to_vec();
        c.extend(&other[c2..]);
        emit(which, &c, "splice", &mut rep, &mut f);
      }
    }
    if rep.samples.len() < 4 {
      rep.sample(json!({"decoder": which, "honest_len": n, "accepted": ok}));
    }
  }
  // size limits of the bincode loaders (C15) and random strings
  if only.iter().any(|d| d == "pk") {
    let s = Server::new((0..=255u8).collect()).expect("server");
    let full = s.get_public_key().serialize_to_bincode().unwrap_or_default();
    emit("pk", &full, "pk-256-tags", &mut rep, &mut f);
    for len in [16383usize, 16384, 16385, 20000] {
      // a well-formed key padded with trailing bytes up to / beyond the cap
      let mut c = full.clone();
      c.resize(len, 0);
      emit("pk", &c, "cap", &mut rep, &mut f);
    }
    // inflated map count
    let mut c = full.clone();
    c[32..40].copy_from_slice(&300u64.to_le_bytes());
    emit("pk", &c, "inflated-count", &mut rep, &mut f);
    let mut c = full[..40 + 33 * 3].to_vec();
    c[32..40].copy_from_slice(&(1u64 << 40).to_le_bytes());
    emit("pk", &c, "huge-count", &mut rep, &mut f);
    // repeated tag
    let mut c = full[..40 + 33 * 3].to_vec();
    c[32..40].copy_from_slice(&3u64.to_le_bytes());
    c[40 + 33] = c[40];
    emit("pk", &c, "repeated-tag", &mut rep, &mut f);
  }
  if only.iter().any(|d| d == "proof") {
    for len in [0usize, 1, 32, 63, 64, 65, 66, 100] {
      let mut c = vec![0u8; len];
      if len >= 1 { c[0] = 5; }
      if len >= 33 { c[32] = 9; }
      emit("proof", &c, "cap", &mut rep, &mut f);
    }
    // non-canonical scalars: l, l+1, 2^255-1
    let ell: [u8; 32] = [237, 211, 245, 92, 26, 99, 18, 88, 214, 156, 247, 162, 222, 249, 222, 20, 0, 0, 0, 0, 0, 0, 0, 0, 0, 0, 0, 0, 0, 0, 0, 16];
    for (i, sc) in [ell, { let mut e = ell; e[0] += 1; e }, { let mut e = ell; e[0] -= 1; e }, [0xff; 32]].iter().enumerate() {
      let mut c = vec![0u8; 64];
      c[..32].copy_from_slice(sc);
      c[32] = 1;
      emit("proof", &c, "scalar-c", &mut rep, &mut f);
      let mut c = vec![0u8; 64];
      c[32..].copy_from_slice(sc);
      c[0] = i as u8;
      emit("proof", &c, "scalar-s", &mut rep, &mut f);
    }
  }
  for which in ["sharks", "adss", "message", "pk", "proof"] {
    if !only.iter().any(|d| d == which) {
      continue;
    }
    for _ in 0..(if thorough { 200 } else { 30 }) {
      let n = [0usize, 1, 3, 4, 8, 24, 47, 48, 64, 72, 100, 200][rng.gen_range(0..12)];
      let mut c: Vec<u8> = (0..n).map(|_| rng.gen()).collect();
      if rng.gen() {
        // make length headers small so that parsing gets further
        for k in (0..n).step_by(5) {
          if k + 3 < n { c[k + 1] = 0; c[k + 2] = 0; c[k + 3] = 0; c[k] %= 40; }
        }
      }
      emit(which, &c, "random", &mut rep, &mut f);
    }
  }
  f.flush().unwrap();
  rep.traces = 1;
  rep
}

// ---------------------------------------------------------------------------
fn bad_point_bytes() -> [u8; 32] {
  // a 32-byte string that is not the encoding of a ristretto point
  let mut b = [0xffu8; 32];
  b[0] = 0xfe;
  b
}

/// `vh crash-sweep --seed S --tier quick|thorough` (C09)
pub fn crash_sweep(a: &Args) -> Report {
  let mut rep = Report::new("crash-sweep");
  let seed = a.u64("seed", 1);
  let thorough = a.str("tier", "quick") == "thorough";
  let mut rng = rng_from(seed, 909);
  let vals = honest_values(&mut rng, if thorough { 12 } else { 5 }, &mut rep);
  let hdr_vals: Vec<u32> = vec![0, 1, 2, 23, 24, 25, 63, 64, 65, 255, 256, 65536, (1 << 31) - 1, 1 << 31, u32::MAX - 4, u32::MAX - 3, u32::MAX - 1, u32::MAX];
  // 1. decoders: every truncation; every length header set to each boundary value
  for (which, b) in &vals {
    let names: Vec<&str> = if *which == "adss" { vec!["adss", "star_share"] } else { vec![which] };
    for name in names {
      for cut in 0..=b.len() {
        if !thorough && cut > 80 && cut + 80 < b.len() && cut % 5 != 0 {
          continue;
        }
        rep.evaluations += 1;
        let (_, _, p) = dec(name, &b[..cut]);
        rep.nontrivial(format!("{name}:cut:{cut}:{}", b.len()));
        if p {
          let class = if (name == "adss" || name == "star_share") && cut < 4 { "len<4".to_string() } else { format!("truncation") };
          c09_panic(&mut rep, &format!("decoder:{name}"), &class,
            format!("decoder {name} panicked on a {cut}-byte prefix of a valid {}-byte encoding", b.len()),
            json!({"decoder": name, "bytes": &b[..cut]}));
        }
      }
      // headers
      let mut hdrs: Vec<usize> = Vec::new();
      match *which {
        "adss" => {
          if let Some(l) = layout(b) {
            hdrs = vec![0, 4, l.s.1, l.c.1];
          }
        }
        "message" => {
          let rd = |o: usize| u32::from_le_bytes([b[o], b[o + 1], b[o + 2], b[o + 3]]) as usize;
          let h1 = 0;
          let h2 = 4 + rd(0);
          let h3 = h2 + 4 + rd(h2);
          hdrs = vec![h1, h2, h3, h2 + 4, h2 + 8];
        }
        _ => {}
      }
      for h in hdrs {
        for v in &hdr_vals {
          let mut c = b.clone();
          if h + 4 > c.len() {
            continue;
          }
          c[h..h + 4].copy_from_slice(&v.to_le_bytes());
          rep.evaluations += 1;
          let (_, _, p) = dec(name, &c);
          rep.nontrivial(format!("{name}:hdr:{h}:{v}"));
          if p {
            let class = if *v >= u32::MAX - 3 { "header>=2^32-4".to_string() } else { format!("header-value") };
            c09_panic(&mut rep, &format!("decoder:{name}"), &class,
              format!("decoder {name} panicked with the length/threshold field at offset {h} set to {v}"),
              json!({"decoder": name, "offset": h, "value": v, "bytes": c}));
          }
        }
      }
    }
  }
  // the load_bytes helper itself (public, used by every consumer of the payload)
  for v in &hdr_vals {
    for extra in [0usize, 1, 4, 30] {
      let mut c = v.to_le_bytes().to_vec();
      c.extend(vec![1u8; extra]);
      rep.evaluations += 1;
      if guard(|| adss::load_bytes(&c).map(|x| x.len())).is_panic() {
        c09_panic(&mut rep, "adss::load_bytes", if *v >= u32::MAX - 3 { "header>=2^32-4" } else { "header-value" },
          format!("load_bytes panicked on header {v} with {extra} following bytes"), json!({"bytes": c}));
      }
    }
  }
  // 2. recovery on structurally valid but degenerate shares
  let adss_shares: Vec<Vec<u8>> = vals.iter().filter(|(w, _)| *w == "adss").map(|(_, b)| b.clone()).collect();
  for b in &adss_shares {
    let l = match layout(b) { Some(l) => l, None => continue };
    let mut variants: Vec<(String, Vec<u8>)> = Vec::new();
    // no y-coordinates
    let mut noy = b[..4].to_vec();
    noy.extend(24u32.to_le_bytes());
    noy.extend(&b[l.s.0..l.s.0 + 24]);
    noy.extend(&b[l.s.1..]);
    variants.push(("no-y".into(), noy.clone()));
    for thr in [0u32, 1, u32::MAX] {
      let mut c = b.clone();
      c[..4].copy_from_slice(&thr.to_le_bytes());
      variants.push((format!("thr={thr}"), c));
      let mut c = noy.clone();
      c[..4].copy_from_slice(&thr.to_le_bytes());
      variants.push((format!("no-y,thr={thr}"), c));
    }
    for (name, c) in variants {
      for count in [1usize, 2, 3] {
        rep.evaluations += 2;
        rep.nontrivial(format!("recover:{name}:{count}:{}", hex(&b[8..16])));
        let a_sh: Vec<adss::Share> = (0..count).filter_map(|_| adss::Share::from_bytes(&c)).collect();
        if a_sh.len() == count {
          if guard(|| adss::recover(&a_sh).is_ok()).is_panic() {
            c09_panic(&mut rep, "adss::recover", &format!("{}", name.split(',').next().unwrap_or("")),
              format!("adss::recover panicked on {count} share(s) with {name}"), json!({"variant": name, "count": count, "bytes": c}));
          }
        }
        let s_sh: Vec<sta_rs::Share> = (0..count).filter_map(|_| sta_rs::Share::from_bytes(&c)).collect();
        if s_sh.len() == count {
          if guard(|| share_recover(&s_sh).is_ok()).is_panic() {
            c09_panic(&mut rep, "share_recover", &format!("{}", name.split(',').next().unwrap_or("")),
              format!("share_recover panicked on {count} share(s) with {name}"), json!({"variant": name, "count": count, "bytes": c}));
          }
        }
      }
    }
  }
  // sets that reach interpolation with a degenerate coordinate: x = 0, x = p-1, y = 0, repeated x
  for t in [1u32, 2, 3] {
    let msg = vec![0x33u8; 32];
    let honest: Vec<Vec<u8>> = (0..(t as usize + 1))
      .filter_map(|_| Commune::new(t, msg.clone(), vec![0x44u8; 32], None).share().ok().map(|s| s.to_bytes()))
      .collect();
    if honest.len() < t as usize + 1 {
      continue;
    }
    let l = layout(&honest[0]).unwrap();
    let pm1: [u8; 24] = { let mut e = [0u8; 24]; e[0] = 162; e[1] = 48; e[16] = 1; e };
    for pos in 0..honest.len() {
      for (name, coord, val) in [("x=0", 0usize, [0u8; 24]), ("x=p-1", 0, pm1), ("y=0", 24, [0u8; 24]), ("y=p-1", 24, pm1)] {
        let mut set = honest.clone();
        set[pos][l.s.0 + coord..l.s.0 + coord + 24].copy_from_slice(&val);
        let mut variants = vec![(name.to_string(), set.clone())];
        // and the same x on two shares with different y
        if coord == 0 && honest.len() >= 2 {
          let mut s2 = set.clone();
          let q = (pos + 1) % honest.len();
          s2[q][l.s.0..l.s.0 + 24].copy_from_slice(&val);
          variants.push((format!("{name},twice"), s2));
        }
        for (vn, set) in variants {
          rep.evaluations += 3;
          rep.nontrivial(format!("interp:{t}:{pos}:{vn}"));
          let a_sh: Vec<adss::Share> = set.iter().filter_map(|b| adss::Share::from_bytes(b)).collect();
          if guard(|| adss::recover(&a_sh).is_ok()).is_panic() {
            c09_panic(&mut rep, "adss::recover", &format!("degenerate-coordinate:{vn}"),
              format!("adss::recover panicked on a collection (t={t}) whose share {pos} has {vn}"), json!({"t": t, "position": pos, "variant": vn, "shares": set}));
          }
          let s_sh: Vec<sta_rs::Share> = set.iter().filter_map(|b| sta_rs::Share::from_bytes(b)).collect();
          if guard(|| share_recover(&s_sh).is_ok()).is_panic() {
            c09_panic(&mut rep, "share_recover", &format!("degenerate-coordinate:{vn}"),
              format!("share_recover panicked on a collection (t={t}) whose share {pos} has {vn}"), json!({"t": t, "position": pos, "variant": vn}));
          }
          let k_sh: Vec<star_sharks::Share> = set.iter().filter_map(|b| layout(b).and_then(|l| star_sharks::Share::try_from(&b[l.s.0..l.s.1]).ok())).collect();
          if guard(|| Sharks(t).recover(&k_sh).is_ok()).is_panic() {
            c09_panic(&mut rep, "Sharks::recover", &format!("degenerate-coordinate:{vn}"),
              format!("Sharks::recover panicked on a collection (t={t}) whose share {pos} has {vn}"), json!({"t": t, "position": pos, "variant": vn}));
          }
          let joined = set.iter().map(|b| BASE64_STANDARD.encode(b)).collect::<Vec<_>>().join("\n");
          if guard(|| star_wasm::group_shares(&joined, "e")).is_panic() {
            c09_panic(&mut rep, "star_wasm::group_shares", &format!("degenerate-coordinate:{vn}"),
              format!("group_shares panicked on a collection (t={t}) whose share {pos} has {vn}"), json!({"t": t, "position": pos, "variant": vn}));
          }
        }
      }
    }
  }
  // sharks-level recover: empty list, no y, threshold 0 / max
  for (which, b) in &vals {
    if *which != "sharks" {
      continue;
    }
    if let Ok(s) = star_sharks::Share::try_from(b.as_slice()) {
      let mut noy = s.clone();
      noy.y.clear();
      for thr in [0u32, 1, 2, u32::MAX] {
        for sel in [vec![], vec![s.clone()], vec![noy.clone()], vec![noy.clone(), noy.clone()], vec![s.clone(), noy.clone()]] {
          rep.evaluations += 1;
          if guard(|| Sharks(thr).recover(&sel).is_ok()).is_panic() {
            c09_panic(&mut rep, "Sharks::recover", "degenerate-shares",
              format!("Sharks({thr}).recover panicked on {} share(s)", sel.len()), json!({"threshold": thr, "shares": sel.len()}));
          }
        }
      }
    }
  }
  // 3. WASM grouping call
  let good: Vec<String> = adss_shares.iter().map(|b| BASE64_STANDARD.encode(b)).collect();
  let mut wasm_inputs: Vec<(String, String)> = vec![
    ("empty".into(), "".into()),
    ("not-base64".into(), "!!!not base64!!!".into()),
    ("empty-line".into(), format!("{}\n\n{}", good[0], good[0])),
    ("trailing-newline".into(), format!("{}\n", good[0])),
    ("short-share".into(), BASE64_STANDARD.encode([1u8, 2, 3])),
    ("bad-share".into(), BASE64_STANDARD.encode(vec![7u8; 200])),
    ("truncated-share".into(), BASE64_STANDARD.encode(&adss_shares[0][..adss_shares[0].len() - 7])),
    ("good-then-garbage".into(), format!("{}\n%%%%", good[0])),
    ("url-safe-alphabet".into(), good[0].replace('+', "-").replace('/', "_")),
  ];
  for b in &adss_shares {
    if let Some(l) = layout(b) {
      let mut noy = b[..4].to_vec();
      noy.extend(24u32.to_le_bytes());
      noy.extend(&b[l.s.0..l.s.0 + 24]);
      noy.extend(&b[l.s.1..]);
      noy[..4].copy_from_slice(&1u32.to_le_bytes());
      wasm_inputs.push(("no-y".into(), BASE64_STANDARD.encode(&noy)));
      break;
    }
  }
  // strings are arbitrary Unicode on the JavaScript side: a multi-byte character at every
  // position of the first 24 characters (and at strided later ones) of a genuine share list, of
  // ASCII garbage and of short lines, in 2-, 3- and 4-byte encodings; CR LF; NUL; a BOM
  let two = format!("{}\n{}", good[0], good[good.len() - 1]);
  for (bn, base) in [("genuine", two.clone()), ("garbage", "A".repeat(40)), ("short", "AAAAAAAAAAAA".to_string())] {
    let chars: Vec<char> = base.chars().collect();
    let mut positions: Vec<usize> = (0..24.min(chars.len())).collect();
    positions.extend((24..chars.len()).step_by(11));
    if !chars.is_empty() {
      positions.push(chars.len() - 1);
    }
    for pos in positions {
      for (cn, ch) in [("2-byte", 'é'), ("3-byte", '€'), ("4-byte", '😀')] {
        let mut c2 = chars.clone();
        c2[pos] = ch;
        wasm_inputs.push((format!("unicode:{bn}:{cn}:replace@{pos}"), c2.iter().collect()));
        let mut c3 = chars.clone();
        c3.insert(pos, ch);
        wasm_inputs.push((format!("unicode:{bn}:{cn}:insert@{pos}"), c3.iter().collect()));
      }
    }
  }
  wasm_inputs.push(("crlf".into(), two.replace('\n', "\r\n")));
  wasm_inputs.push(("nul".into(), format!("{}\0{}", good[0], good[0])));
  wasm_inputs.push(("bom".into(), format!("\u{feff}{}", two)));
  wasm_inputs.push(("only-newlines".into(), "\n\n\n".into()));
  wasm_inputs.push(("padding-only".into(), "====\n====".into()));
  for (name, inp) in wasm_inputs {
    rep.evaluations += 1;
    rep.nontrivial(format!("wasm:{name}"));
    // (the epoch is a string too)
    for ep in ["epoch", "épöque€😀", ""] {
      if guard(|| star_wasm::group_shares(&inp, ep)).is_panic() {
        c09_panic(&mut rep, "star_wasm::group_shares", &name,
          format!("group_shares panicked on input class {name} (epoch {ep:?})"), json!({"input": inp, "epoch": ep}));
        break;
      }
    }
    if guard(|| star_wasm::group_shares(&inp, "epoch")).is_panic() {
      c09_panic(&mut rep, "star_wasm::group_shares", &name,
        format!("group_shares panicked on input class {name}"), json!({"input": inp}));
    }
  }
  // 4. PPOPRF: evaluation of a bad point, verification with degenerate values
  let server = Server::new(vec![0, 1, 7]).expect("server");
  let pk = server.get_public_key();
  let (blinded, _r) = Client::blind(b"crash sweep input");
  let bad = Point::from(&bad_point_bytes()[..]);
  rep.evaluations += 1;
  for v in [false, true] {
    match guard(|| server.eval(&bad, 0, v).is_ok()) {
      Guard::Done(false) => {}
      Guard::Done(true) => c09_panic(&mut rep, "Server::eval", "bad-point-accepted", "eval accepted an undecodable point".into(), json!({})),
      Guard::Panic(_) => c09_panic(&mut rep, "Server::eval", "bad-point", "eval panicked on an undecodable point".into(), json!({"verifiable": v})),
    }
  }
  // structurally VALID but degenerate values: the identity as request point (plain and verifiable),
  // a punctured tag, an unregistered tag
  let identity = Point::from(&[0u8; 32][..]);
  let mut punctured = server.clone();
  let _ = punctured.puncture(1);
  for (name, srv, p, md) in [("identity-point", &server, &identity, 0u8), ("identity-point-tag7", &server, &identity, 7),
                             ("punctured-tag", &punctured, &blinded, 1), ("identity-point-punctured-tag", &punctured, &identity, 1),
                             ("unregistered-tag", &server, &blinded, 200), ("identity-point-unregistered-tag", &server, &identity, 200)] {
    for v in [false, true] {
      rep.evaluations += 1;
      rep.nontrivial(format!("eval:{name}:{v}"));
      if guard(|| srv.eval(p, md, v).is_ok()).is_panic() {
        c09_panic(&mut rep, "Server::eval", name, format!("Server::eval panicked ({name}, verifiable={v})"), json!({"case": name, "verifiable": v}));
      }
    }
  }
  let good_ev = server.eval(&blinded, 0, true).expect("eval");
  let proof_bytes = good_ev.proof.as_ref().unwrap().serialize_to_bincode().unwrap();
  let mk_ev = |out: &Point, proof: bool| Evaluation {
    output: out.clone(),
    proof: if proof { ProofDLEQ::load_from_bincode(&proof_bytes).ok() } else { None },
  };
  let cases: Vec<(&str, ServerPublicKey, Point, Evaluation, u8)> = vec![
    ("missing-proof", pk.clone(), blinded.clone(), mk_ev(&good_ev.output, false), 0),
    ("bad-output-point", pk.clone(), blinded.clone(), mk_ev(&bad, true), 0),
    ("bad-input-point", pk.clone(), bad.clone(), mk_ev(&good_ev.output, true), 0),
    ("unregistered-tag", pk.clone(), blinded.clone(), mk_ev(&good_ev.output, true), 99),
    ("identity-output", pk.clone(), blinded.clone(), mk_ev(&identity, true), 0),
    ("identity-input", pk.clone(), identity.clone(), mk_ev(&good_ev.output, true), 0),
    ("identity-input-and-output", pk.clone(), identity.clone(), mk_ev(&identity, true), 0),
    ("output-equals-input", pk.clone(), blinded.clone(), mk_ev(&blinded, true), 0),
    ("zero-scalars", pk.clone(), blinded.clone(), Evaluation { output: good_ev.output.clone(), proof: ProofDLEQ::load_from_bincode(&[0u8; 64]).ok() }, 0),
    ("missing-proof-unregistered-tag", pk.clone(), blinded.clone(), mk_ev(&good_ev.output, false), 99),
  ];
  for (name, k, inp, ev, md) in cases {
    rep.evaluations += 1;
    rep.nontrivial(format!("verify:{name}"));
    match guard(|| Client::verify(&k, &inp, &ev, md)) {
      Guard::Done(false) => {}
      Guard::Done(true) => c09_panic(&mut rep, "Client::verify", &format!("{name}:accepted"),
        format!("verify accepted a degenerate evaluation ({name})"), json!({"case": name})),
      Guard::Panic(_) => c09_panic(&mut rep, "Client::verify", name,
        format!("verify panicked ({name})"), json!({"case": name})),
    }
  }
  // public key loaded from bincode with an undecodable base / tag point
  if let Ok(pkb) = pk.serialize_to_bincode() {
    for (name, off) in [("bad-base-pk", 0usize), ("bad-tag-pk", 41usize), ("identity-base-pk", 0), ("identity-tag-pk", 41)] {
      let mut c = pkb.clone();
      if name.starts_with("identity") {
        c[off..off + 32].copy_from_slice(&[0u8; 32]);
      } else {
        c[off..off + 32].copy_from_slice(&bad_point_bytes());
      }
      rep.evaluations += 1;
      rep.nontrivial(format!("verify:{name}"));
      match guard(|| ServerPublicKey::load_from_bincode(&c).ok()) {
        Guard::Done(Some(k2)) => match guard(|| Client::verify(&k2, &blinded, &mk_ev(&good_ev.output, true), 0)) {
          Guard::Done(false) => {}
          Guard::Done(true) => c09_panic(&mut rep, "Client::verify", &format!("{name}:accepted"), "verify accepted under a corrupted public key".into(), json!({"case": name})),
          Guard::Panic(_) => c09_panic(&mut rep, "Client::verify", name, format!("verify panicked with a loaded public key holding an undecodable point ({name})"), json!({"case": name})),
        },
        Guard::Done(None) => {}
        Guard::Panic(_) => c09_panic(&mut rep, "ServerPublicKey::load_from_bincode", name, "loader panicked".into(), json!({"case": name})),
      }
    }
  }
  // loaders on random strings and truncations
  for (which, b) in &vals {
    if *which != "pk" && *which != "proof" {
      continue;
    }
    for _ in 0..(if thorough { 400 } else { 60 }) {
      let mut c = b.clone();
      let k = rng.gen_range(0..c.len().max(1));
      if !c.is_empty() {
        c[k] = rng.gen();
      }
      c.truncate(rng.gen_range(0..=c.len()));
      rep.evaluations += 1;
      let (_, _, p) = dec(which, &c);
      if p {
        c09_panic(&mut rep, &format!("decoder:{which}"), "random-mutation", format!("{which} loader panicked"), json!({"bytes": c}));
      }
    }
  }
  // keep oprf_randomness referenced for completeness of the round trip with a verifying client
  let _ = oprf_randomness(&server, b"x", 0, true);
  rep.traces = 1;
  rep.sample(json!({"entry_points": ["decoder:sharks","decoder:adss","decoder:star_share","decoder:message","decoder:pk","decoder:proof",
    "adss::load_bytes","adss::recover","share_recover","Sharks::recover","star_wasm::group_shares","Server::eval","Client::verify"]}));
  rep
}
