//! Shamir family (C06) and the polynomial certificate of C02: dealing / evaluation /
//! recovery calls of star_sharks logged for Trace_Shamir (TLC over Fp129 as oracle).
use crate::field::{fp_from_big, limbs, limbs_of_big, p_big};
use crate::star::{layout, make_client, ClientCfg};
use crate::util::*;
use ff::Field;
use num_bigint::BigUint;
use ppoprf::ppoprf::Server as OprfServer;
use rand::seq::SliceRandom;
use rand::{Rng, RngCore, SeedableRng};
use serde_json::{json, Value};
use star_sharks::{Fp, Share, Sharks};
use std::convert::TryFrom;
use std::io::Write;

/// A structured, clonable random source: a 64-bit counter pushed through a weak mixer, with
/// long runs of identical high bits — unlike ChaCha it produces many rejected candidates.
#[derive(Clone)]
struct Patterned {
  ctr: u64,
  mode: u8,
}
impl RngCore for Patterned {
  fn next_u32(&mut self) -> u32 {
    self.next_u64() as u32
  }
  fn next_u64(&mut self) -> u64 {
    self.ctr = self.ctr.wrapping_add(1);
    match self.mode {
      0 => self.ctr.wrapping_mul(0x9E37_79B9_7F4A_7C15),
      1 => {
        // every fourth word is all ones (forces rejections of candidates >= p; the position
        // rotates through the three limbs of a candidate), others small
        if self.ctr % 4 == 0 { u64::MAX } else { self.ctr }
      }
      3 => {
        // the first three words are zero: the first field element drawn is ZERO
        if self.ctr <= 3 { 0 } else { self.ctr.wrapping_mul(0xD6E8_FEB8_6659_FD93) }
      }
      4 => {
        // the second field element drawn is zero (words 4..6)
        if (4..=6).contains(&self.ctr) { 0 } else { self.ctr.wrapping_mul(0xD6E8_FEB8_6659_FD93) ^ 0x55 }
      }
      _ => (self.ctr << 56) | (self.ctr >> 3),
    }
  }
  fn fill_bytes(&mut self, dest: &mut [u8]) {
    rand_core::impls::fill_bytes_via_next(self, dest)
  }
  fn try_fill_bytes(&mut self, dest: &mut [u8]) -> Result<(), rand_core::Error> {
    self.fill_bytes(dest);
    Ok(())
  }
}

/// replays given 64-bit words, then zeros
struct Replay {
  words: Vec<u64>,
  i: usize,
}
impl RngCore for Replay {
  fn next_u32(&mut self) -> u32 {
    self.next_u64() as u32
  }
  fn next_u64(&mut self) -> u64 {
    let w = self.words.get(self.i).copied().unwrap_or(0);
    self.i += 1;
    w
  }
  fn fill_bytes(&mut self, dest: &mut [u8]) {
    rand_core::impls::fill_bytes_via_next(self, dest)
  }
  fn try_fill_bytes(&mut self, dest: &mut [u8]) -> Result<(), rand_core::Error> {
    self.fill_bytes(dest);
    Ok(())
  }
}

#[derive(Clone)]
enum Src {
  Cha(rand_chacha::ChaCha8Rng),
  Pat(Patterned),
}
impl RngCore for Src {
  fn next_u32(&mut self) -> u32 {
    match self { Src::Cha(r) => r.next_u32(), Src::Pat(r) => r.next_u32() }
  }
  fn next_u64(&mut self) -> u64 {
    match self { Src::Cha(r) => r.next_u64(), Src::Pat(r) => r.next_u64() }
  }
  fn fill_bytes(&mut self, d: &mut [u8]) {
    match self { Src::Cha(r) => r.fill_bytes(d), Src::Pat(r) => r.fill_bytes(d) }
  }
  fn try_fill_bytes(&mut self, d: &mut [u8]) -> Result<(), rand_core::Error> {
    self.fill_bytes(d);
    Ok(())
  }
}

fn boundary_elems() -> Vec<BigUint> {
  let p = p_big();
  let one = BigUint::from(1u8);
  vec![
    BigUint::from(0u8), one.clone(), &p - &one, &p - BigUint::from(2u8),
    (BigUint::from(1u8) << 64usize) - &one, BigUint::from(1u8) << 64usize,
    (BigUint::from(1u8) << 128usize) - &one, BigUint::from(1u8) << 128usize,
    (&p - &one) >> 1usize, BigUint::from(12451u32),
  ]
}

fn enc24(b: &BigUint) -> Vec<u8> {
  let mut v = b.to_bytes_le();
  v.resize(24, 0);
  v
}

fn share_json(s: &Share) -> (Value, Value) {
  (json!(limbs(&s.x)), Value::Array(s.y.iter().map(|y| json!(limbs(y))).collect()))
}

fn big_of(x: &Fp) -> BigUint {
  BigUint::from_bytes_le(&limbs(x))
}

/// the k polynomials (highest degree first, n coefficients each) through the first n of the given
/// shares; an untrusted witness — TLC re-evaluates every share on it.  Shares that cannot be
/// interpolated (too few, ragged, repeated x) give an all-zero witness, which TLC then rejects.
fn witness_polys(shares: &[Share], n: usize, k: usize, p: &BigUint) -> Vec<Vec<BigUint>> {
  let usable = shares.len() >= n && shares[..n].iter().all(|s| s.y.len() == k)
    && (0..n).all(|i| (0..i).all(|j| shares[i].x != shares[j].x));
  (0..k)
    .map(|e| {
      if !usable {
        return vec![BigUint::from(0u8); n];
      }
      let pts: Vec<(BigUint, BigUint)> = shares[..n].iter().map(|s| (big_of(&s.x), big_of(&s.y[e]))).collect();
      interpolate(&pts, p)
    })
    .collect()
}

/// Which sampler does the dealer use?  The property says "a separate draw from the supplied random
/// source" without fixing how a draw becomes a field element.  Probe: deal a one-element secret at
/// threshold 4 from a ChaCha stream and look for the three coefficients among the first values of
/// `Fp::random` on the same stream.  All present => "fp-random" (coefficients can then be matched
/// against draws one for one); none present => "opaque" (another sampler: only sampler-independent
/// facts are demanded); some present => reported as it is ("mixed"), TLC rejects the Deal events.
fn probe_sampler(p: &BigUint) -> &'static str {
  let src0 = rand_chacha::ChaCha8Rng::seed_from_u64(0x5a17);
  let mut src = src0.clone();
  let secret = enc24(&BigUint::from(5u8));
  let ev = match guard(|| Sharks(4).dealer_rng(&secret, &mut src).map_err(|e| e.to_string())) {
    Guard::Done(Ok(e)) => e,
    _ => return "opaque",
  };
  let shares: Vec<Share> = ev.take(4).collect();
  let polys = witness_polys(&shares, 4, 1, p);
  let mut s2 = src0.clone();
  let draws: Vec<BigUint> = (0..12).map(|_| big_of(&Fp::random(&mut s2))).collect();
  let hits = polys.first().map(|c| c[..3].iter().filter(|x| draws.contains(x)).count()).unwrap_or(0);
  match hits {
    3 => "fp-random",
    0 => "opaque",
    _ => "mixed",
  }
}

/// `vh shamir-record --out F --seed S --deals N --maxt T`
pub fn record(a: &Args) -> Report {
  let mut rep = Report::new("shamir-record");
  let seed = a.u64("seed", 1);
  let deals = a.u64("deals", 10);
  let maxt = a.u64("maxt", 24) as u32;
  let out = a.get("out").expect("--out");
  let mut f = std::io::BufWriter::new(std::fs::File::create(out).expect("create"));
  let mut rng = rng_from(seed, 606);
  let bnd = boundary_elems();
  let p = p_big();
  let mut nshares_logged = 0usize;
  let mut deal_no = 0usize;
  let sampler = probe_sampler(&p);
  rep.count(&format!("dealer_sampler:{sampler}"), 1);
  for d in 0..deals {
    // thresholds are swept (deal d uses t = d for d <= --sweep), then sampled
    let sweep = a.u64("sweep", 0);
    let t: u32 = if d <= sweep { d as u32 } else { match d % 8 {
      0 => 1,
      1 => 2,
      2 => 3,
      3 => 0,
      4 => rng.gen_range(4..=8),
      5 => rng.gen_range(9..=maxt.max(9)),
      6 => maxt,
      _ => rng.gen_range(2..=maxt.max(2)),
    } };
    // element counts: mostly 1-3, every count 0..16 appears for small thresholds
    let k: usize = if d <= sweep && t <= 3 { [2usize, 3, 16, 5][t as usize] }
      else if d <= sweep { 1 + (d as usize % 3) }
      else if t > 12 { rng.gen_range(1..=2) } else if d % 5 == 4 { 16 } else if d % 7 == 0 { 0 } else { rng.gen_range(1..=3) };
    let k = if t > 6 && k > 4 { 2 } else { k };
    // secret elements from the boundary lattice and random ones
    let elems: Vec<BigUint> = (0..k)
      .map(|i| if (i + d as usize) % 2 == 0 { bnd[(i * 3 + d as usize) % bnd.len()].clone() } else {
        let mut b = [0u8; 16];
        rng.fill(&mut b);
        BigUint::from_bytes_le(&b)
      })
      .collect();
    let mut secret: Vec<u8> = elems.iter().flat_map(enc24).collect();
    // a trailing partial element is dropped by the dealer
    if d % 3 == 1 {
      secret.extend([0xAB; 7]);
    }
    let src0 = match d % 4 {
      _ if d % 5 == 2 => Src::Pat(Patterned { ctr: 0, mode: 3 }),   // first draw is the zero element
      _ if d % 5 == 4 => Src::Pat(Patterned { ctr: 0, mode: 4 }),   // second draw is the zero element
      0 | 1 => Src::Cha(rand_chacha::ChaCha8Rng::seed_from_u64(seed.wrapping_mul(31).wrapping_add(d))),
      2 => Src::Pat(Patterned { ctr: seed.wrapping_add(d), mode: 0 }),
      _ => Src::Pat(Patterned { ctr: d, mode: if d % 8 == 3 { 1 } else { 2 } }),
    };
    let mut src = src0.clone();
    let sharks = Sharks(t);
    let ev = match guard(|| sharks.dealer_rng(&secret, &mut src).map_err(|e| e.to_string())) {
      Guard::Done(Ok(e)) => e,
      _ => {
        rep.violation("C06", "Sharks::dealer_rng", "canonical-secret-refused",
          "a secret of canonical field elements was refused".into(), json!({"t": t, "k": k}));
        continue;
      }
    };
    rep.evaluations += 1;
    // the random source run through the field's own sampler: the values a dealer can have drawn
    // (a few more than it needs — the order and grouping of the draws is the dealer's business)
    let mut src2 = src0.clone();
    let nd = if t == 0 { 0 } else { (t as usize - 1) * k };
    let draws: Vec<Fp> = (0..nd + 8).map(|_| Fp::random(&mut src2)).collect();
    deal_no += 1;
    // shares: sequential iterator, then random points
    let n_next = (t as usize).max(1) + 1;
    let n_gen = 2usize;
    let mut evq = ev;
    let mut mine: Vec<(usize, Share)> = Vec::new();
    let mut share_lines: Vec<Value> = Vec::new();
    for i in 0..n_next {
      let s = match evq.next() {
        Some(s) => s,
        None => break,
      };
      let (x, y) = share_json(&s);
      share_lines.push(json!({"ev":"Share","deal":deal_no,"kind":"next","idx":i+1,"x":x,"y":y}));
      nshares_logged += 1;
      mine.push((nshares_logged, s));
    }
    // witness for TLC: the k polynomials (highest degree first) through the first max(t,1) shares,
    // by big-integer interpolation.  TLC checks the witness (constant terms = secret, every other
    // coefficient a separate one of the draws) and then EVERY share against it.
    let polys = witness_polys(&mine.iter().map(|(_, s)| s.clone()).collect::<Vec<_>>(), (t as usize).max(1), k, &p);
    // dealing is a function of (secret, stream): the same stream again gives the same shares
    {
      let mut again = src0.clone();
      if let Guard::Done(Ok(ev2)) = guard(|| sharks.dealer_rng(&secret, &mut again).map_err(|e| e.to_string())) {
        let s2: Vec<Share> = ev2.take(n_next).collect();
        if s2.len() != mine.len() || s2.iter().zip(mine.iter()).any(|(a, (_, b))| a != b) {
          rep.violation("C06", "Sharks::dealer_rng", "dealing-not-a-function-of-the-stream",
            "two dealings of one secret from identical random streams differ".into(), json!({"t": t, "k": k}));
        }
      }
    }
    let strong = matches!(src0, Src::Cha(_));
    writeln!(f, "{}", json!({"ev":"Deal","t":t,"secret": elems.iter().map(limbs_of_big).collect::<Vec<_>>(),
      "draws": draws.iter().map(limbs).collect::<Vec<_>>(), "sampler": sampler, "strong": strong as u8,
      "polys": polys.iter().map(|c| c.iter().map(limbs_of_big).collect::<Vec<_>>()).collect::<Vec<_>>() })).unwrap();
    for l in share_lines {
      writeln!(f, "{}", l).unwrap();
    }
    let mut prng = rng_from(seed, 9000 + d);
    for _ in 0..n_gen {
      let s = evq.gen(&mut prng);
      let (x, y) = share_json(&s);
      writeln!(f, "{}", json!({"ev":"Share","deal":deal_no,"kind":"gen","idx":0,"x":x,"y":y})).unwrap();
      nshares_logged += 1;
      mine.push((nshares_logged, s));
    }
    // shares at CHOSEN x-coordinates through the public `gen`: the random source replays the internal
    // words of the wanted element (`Vec<u64>::from(Fp)`), so `Fp::random` returns exactly it.
    // x = 2^128 + a collides with x = a on the low 16 bytes; p-1, 2^128, 2^64 are limb boundaries.
    if t >= 1 && t <= 8 {
      let two128: BigUint = BigUint::from(1u8) << 128usize;
      let wanted: Vec<BigUint> = vec![&two128 + BigUint::from(1u8), &two128 + BigUint::from(2u8), p_big() - BigUint::from(1u8),
                                      two128.clone(), BigUint::from(1u8) << 64usize, &two128 + BigUint::from(12450u32)];
      for w in wanted.iter().take(if d % 2 == 0 { 6 } else { 3 }) {
        if let Some(xf) = fp_from_big(w) {
          let words: Vec<u64> = Vec::<u64>::from(xf);
          let mut replay = Replay { words, i: 0 };
          let s = evq.gen(&mut replay);
          if s.x != xf {
            continue; // the sampler did not take the words as given: skip (not a property of the library)
          }
          let (x, y) = share_json(&s);
          writeln!(f, "{}", json!({"ev":"Share","deal":deal_no,"kind":"gen","idx":0,"x":x,"y":y})).unwrap();
          nshares_logged += 1;
          mine.push((nshares_logged, s));
        }
      }
    }
    rep.evaluations += mine.len() as u64;
    // serialisation round trip of every share
    for (_, s) in &mine {
      let b = Vec::<u8>::from(s);
      match Share::try_from(b.as_slice()) {
        Ok(s2) if s2 == *s && b.len() == 24 * (1 + s.y.len()) => {}
        _ => rep.violation("C06", "Share::try_from", "share-roundtrip",
          "a dealt share does not survive Vec<u8>::from / try_from".into(), json!({"t": t, "k": k})),
      }
    }
    // recoveries: exact, permuted + duplicates, surplus, too few, ragged
    let tt = t as usize;
    let mut sels: Vec<(Vec<usize>, Vec<u8>)> = Vec::new();
    let idx: Vec<usize> = (0..mine.len()).collect();
    let mut perm = idx.clone();
    perm.shuffle(&mut rng);
    sels.push((perm[..tt.min(perm.len())].to_vec(), vec![]));
    let mut dup = vec![perm[0], perm[0]];
    dup.extend(&perm);
    dup.push(perm[perm.len() - 1]);
    sels.push((dup, vec![]));
    sels.push((idx.clone(), vec![]));
    if tt >= 1 && perm.len() >= tt {
      // the t-th distinct share arrives late: one share 2t+3 times, then the other t-1; and every
      // share three times in a row
      let mut late = vec![perm[0]; 2 * tt + 3];
      late.extend(&perm[1..tt]);
      sels.push((late, vec![]));
      let triple: Vec<usize> = perm[..tt].iter().flat_map(|i| [*i, *i, *i]).collect();
      sels.push((triple, vec![]));
    }
    // shares straight from the sequential dealer: x = 1 first and x = t last with something other
    // than 2..t-1 in between (a gap filled by x = t+1; the middle reversed) — a recovery that
    // recognises "1..t" by its end points only goes wrong exactly here
    if tt >= 3 && n_next >= tt + 1 && mine.len() >= tt + 1 {
      let mut gap: Vec<usize> = (0..tt).collect();
      gap[1] = tt;                       // x = t+1 in place of x = 2
      sels.push((gap, vec![]));
      let mut mid: Vec<usize> = (0..tt).collect();
      mid[1..tt - 1].reverse();
      if tt >= 4 {
        sels.push((mid, vec![]));
      }
      sels.push(((0..tt).collect(), vec![]));            // and 1..t in dealer order
      sels.push(((0..tt).rev().collect(), vec![]));      // and reversed
    }
    if tt >= 1 {
      let mut few = perm[..tt - 1].to_vec();
      if !few.is_empty() {
        few.push(few[0]);
        few.push(few[0]);
      }
      sels.push((few, vec![]));
    }
    sels.push((vec![], vec![]));
    // exactly t distinct shares taken from the END of the list (the chosen-x shares), and the
    // chosen-x shares paired with their low-16-byte twins (x = a and x = 2^128 + a)
    if mine.len() > n_next + n_gen && tt >= 1 {
      let tail: Vec<usize> = (0..mine.len()).rev().take(tt).collect();
      if tail.len() == tt {
        sels.push((tail, vec![]));
      }
      let mut twins: Vec<usize> = vec![0, n_next + n_gen, 1, n_next + n_gen + 1];
      twins.truncate(tt.max(2).min(4));
      if twins.iter().all(|i| *i < mine.len()) && twins.len() >= tt {
        sels.push((twins[..tt].to_vec(), vec![]));
      }
    }
    // shares of unequal length are refused — wherever the odd ones sit, and also when a short and
    // a long one compensate each other (codes: 1 = last y removed, 2 = one y appended)
    if k >= 1 && mine.len() >= 2 {
      let mut drop = vec![0u8; perm.len()];
      drop[1] = 1;
      sels.push((perm.clone(), drop));
      let mut long1 = vec![0u8; perm.len()];
      long1[1] = 2;
      sels.push((perm.clone(), long1));
      // a REPEATED share (same x as an earlier one) that is short / long, after enough good ones
      let mut rep_sel = perm.clone();
      rep_sel.push(perm[0]);
      let mut d1 = vec![0u8; rep_sel.len()];
      d1[rep_sel.len() - 1] = 1;
      sels.push((rep_sel.clone(), d1));
      let mut d2 = vec![0u8; rep_sel.len()];
      d2[rep_sel.len() - 1] = 2;
      sels.push((rep_sel.clone(), d2));
      if rep_sel.len() >= 3 {
        // ... and directly after its original
        let mut near = vec![perm[0], perm[0]];
        near.extend(&perm[1..]);
        let mut d3 = vec![0u8; near.len()];
        d3[1] = 1;
        sels.push((near, d3));
      }
      // the FIRST share alone is the short one (with one-element secrets it then has no y at all)
      let mut first = vec![0u8; perm.len()];
      first[0] = 1;
      sels.push((perm.clone(), first.clone()));
      if perm.len() >= 3 {
        first[1] = 1;                      // the first two
        sels.push((perm.clone(), first));
      }
      if perm.len() >= 3 {
        let mut comp = vec![0u8; perm.len()];
        comp[1] = 1;
        comp[2] = 2;
        sels.push((perm.clone(), comp));
        let mut comp0 = vec![0u8; perm.len()];
        comp0[0] = 1;
        comp0[perm.len() - 1] = 2;
        sels.push((perm.clone(), comp0));
      }
      if perm.len() >= tt + 2 {
        // among the surplus shares only
        let mut tail = vec![0u8; perm.len()];
        tail[perm.len() - 2] = 1;
        tail[perm.len() - 1] = 2;
        sels.push((perm.clone(), tail));
      }
    }
    for (sel, drop) in sels {
      let drop = if drop.is_empty() { vec![0u8; sel.len()] } else { drop };
      let shs: Vec<Share> = sel
        .iter()
        .zip(drop.iter())
        .map(|(i, d)| {
          let mut s = mine[*i].1.clone();
          if *d == 1 {
            s.y.pop();
          } else if *d == 2 {
            s.y.push(Fp::ONE);
          }
          s
        })
        .collect();
      let r = guard(|| sharks.recover(&shs).map_err(|e| e.to_string()));
      rep.evaluations += 1;
      let (ok, result) = match &r {
        Guard::Done(Ok(bytes)) => (1, bytes.chunks(24).map(|c| {
          let mut v = c.to_vec();
          while v.last() == Some(&0) { v.pop(); }
          v
        }).collect::<Vec<_>>()),
        _ => (0, vec![]),
      };
      if ok == 1 {
        if let Guard::Done(Ok(bytes)) = &r {
          if bytes.len() % 24 != 0 {
            rep.violation("C06", "Sharks::recover", "result-length", "recovered secret is not a whole number of elements".into(), json!({"t": t}));
          }
        }
      }
      writeln!(f, "{}", json!({"ev":"Recover","t":t,"sel": sel.iter().map(|i| mine[*i].0).collect::<Vec<_>>(),
        "drop": drop, "ok": ok, "result": result})).unwrap();
      rep.nontrivial(format!("{d}:{:?}:{:?}", sel, drop));
    }
    // out-of-range element: refused, not altered
    if d % 2 == 0 {
      let bad = [p.clone(), &p + BigUint::from(1u8), (BigUint::from(1u8) << 191usize)][(d as usize / 2) % 3].clone();
      let mut chunks: Vec<Vec<u8>> = elems.iter().map(enc24).collect();
      let pos = if chunks.is_empty() { 0 } else { (d as usize) % (chunks.len() + 1) };
      chunks.insert(pos, enc24(&bad));
      let sec: Vec<u8> = chunks.iter().flatten().cloned().collect();
      let mut s3 = src0.clone();
      rep.evaluations += 1;
      match guard(|| sharks.dealer_rng(&sec, &mut s3).is_ok()) {
        Guard::Done(false) => {
          writeln!(f, "{}", json!({"ev":"DealRefused","chunks": chunks})).unwrap();
          rep.nontrivial(format!("refuse:{d}"));
        }
        _ => rep.violation("C06", "Sharks::dealer_rng", "out-of-range-element-accepted",
          "a secret containing an element >= p was accepted (or the dealer panicked)".into(), json!({"t": t, "position": pos})),
      }
    }
    if rep.samples.len() < 4 {
      rep.sample(json!({"deal": deal_no, "t": t, "secret_elements": k, "shares": mine.len()}));
    }
  }
  // one evaluator used for a long time: the sequential iterator keeps yielding x = 1, 2, 3, ...
  // (checked by TLC through `Share` events for the first and the last few)
  if a.u64("big", 1) == 1 {
    let t = 3u32;
    let elems = vec![BigUint::from(77u32)];
    let secret: Vec<u8> = elems.iter().flat_map(enc24).collect();
    let src0 = Src::Cha(rand_chacha::ChaCha8Rng::seed_from_u64(seed ^ 0xabcdef));
    let mut src = src0.clone();
    if let Guard::Done(Ok(mut ev)) = guard(|| Sharks(t).dealer_rng(&secret, &mut src).map_err(|e| e.to_string())) {
      let mut src2 = src0.clone();
      let draws: Vec<Fp> = (0..10).map(|_| Fp::random(&mut src2)).collect();
      deal_no += 1;
      let mut kept: Vec<Share> = Vec::new();
      let mut lines: Vec<Value> = Vec::new();
      for i in 1..=600usize {
        let s = match ev.next() { Some(s) => s, None => break };
        if i <= 3 || (254..=258).contains(&i) || i >= 598 {
          let (x, y) = share_json(&s);
          lines.push(json!({"ev":"Share","deal":deal_no,"kind":"next","idx":i,"x":x,"y":y}));
          nshares_logged += 1;
          kept.push(s);
        }
      }
      let polys = witness_polys(&kept, 3, 1, &p);
      writeln!(f, "{}", json!({"ev":"Deal","t":t,"secret": elems.iter().map(limbs_of_big).collect::<Vec<_>>(),
        "draws": draws.iter().map(limbs).collect::<Vec<_>>(), "sampler": sampler, "strong": 1,
        "polys": polys.iter().map(|c| c.iter().map(limbs_of_big).collect::<Vec<_>>()).collect::<Vec<_>>() })).unwrap();
      for l in lines {
        writeln!(f, "{}", l).unwrap();
      }
      rep.evaluations += 600;
      let last: Vec<Share> = kept.iter().rev().take(3).cloned().collect();
      match guard(|| Sharks(t).recover(&last).map_err(|e| e.to_string())) {
        Guard::Done(Ok(sv)) if sv == secret => { rep.nontrivial("long-iterator".into()); }
        _ => rep.violation("C06", "Evaluator::next", "long-iterator",
          "shares 598..600 of one evaluator do not recover the secret".into(), json!({"t": t})),
      }
    }
  }
  // every threshold 1..N with the first t shares of the sequential dealer IN ORDER, reversed, and
  // shifted by one (x = 2..t+1): a recovery with a fast path for "x = 1..t" must agree with the
  // general one at every t (round trip only — the TLC oracle covers the small thresholds)
  if a.u64("big", 1) == 1 {
    let top = a.u64("order-sweep", 130) as u32;
    for t in 1..=top {
      let sharks = Sharks(t);
      let secret: Vec<u8> = [enc24(&(p_big() - BigUint::from(t))), enc24(&BigUint::from(t))].concat();
      let mut src = rng_from(seed, 5000 + t as u64);
      if let Guard::Done(Ok(ev)) = guard(|| sharks.dealer_rng(&secret, &mut src).map_err(|e| e.to_string())) {
        let shares: Vec<Share> = ev.take(t as usize + 1).collect();
        let tt = t as usize;
        let fwd: Vec<Share> = shares[..tt].to_vec();
        let rev: Vec<Share> = shares[..tt].iter().rev().cloned().collect();
        let shifted: Vec<Share> = shares[1..].to_vec();
        for (name, sel) in [("dealer-order", fwd), ("reversed", rev), ("shifted-by-one", shifted)] {
          rep.evaluations += 1;
          match guard(|| sharks.recover(&sel).map_err(|e| e.to_string())) {
            Guard::Done(Ok(s)) if s == secret => { rep.nontrivial(format!("order:{t}:{name}")); }
            _ => rep.violation("C06", "Sharks::recover", &format!("sequential-shares-{name}"),
              format!("t={t}: the first t shares of the sequential dealer ({name}) do not recover the secret"), json!({"t": t, "order": name})),
          }
        }
      }
    }
  }
  // thresholds beyond the TLC oracle: round trip and refusal only (stated bound)
  for t in [200u32, 600] {
    if a.u64("big", 1) == 0 {
      break;
    }
    let sharks = Sharks(t);
    let secret: Vec<u8> = enc24(&(p_big() - BigUint::from(1u8)));
    let mut src = rng_from(seed, 777);
    if let Guard::Done(Ok(ev)) = guard(|| sharks.dealer_rng(&secret, &mut src).map_err(|e| e.to_string())) {
      let shares: Vec<Share> = ev.take(t as usize + 1).collect();
      rep.evaluations += 2;
      match guard(|| sharks.recover(&shares[1..]).map_err(|e| e.to_string())) {
        Guard::Done(Ok(s)) if s == secret => {}
        _ => rep.violation("C06", "Sharks::recover", "large-threshold-roundtrip",
          format!("t={t}: t distinct shares do not recover the secret"), json!({"t": t})),
      }
      if let Guard::Done(Ok(_)) = guard(|| sharks.recover(&shares[2..]).map_err(|e| e.to_string())) {
        rep.violation("C06", "Sharks::recover", "large-threshold-too-few",
          format!("t={t}: t-1 shares recovered"), json!({"t": t}));
      }
      rep.count("large_threshold_roundtrips_without_oracle", 1);
    }
  }
  f.flush().unwrap();
  rep.traces = 1;
  rep
}

// ---------------------------------------------------------------------------
// C02: polynomial certificate of the ADSS sharing behind a group of STAR reports.

fn modinv(a: &BigUint, p: &BigUint) -> BigUint {
  a.modpow(&(p - BigUint::from(2u8)), p)
}

/// coefficients (highest degree first) of the polynomial through the given points
fn interpolate(pts: &[(BigUint, BigUint)], p: &BigUint) -> Vec<BigUint> {
  let n = pts.len();
  // master polynomial M(X) = prod (X - x_j), lowest degree first
  let mut m = vec![BigUint::from(1u8)];
  for (x, _) in pts {
    let mut nm = vec![BigUint::from(0u8); m.len() + 1];
    for (i, c) in m.iter().enumerate() {
      nm[i + 1] = (&nm[i + 1] + c) % p;
      nm[i] = (&nm[i] + (p - x) * c) % p;
    }
    m = nm;
  }
  let mut res = vec![BigUint::from(0u8); n];
  for (xi, yi) in pts {
    // N_i = M / (X - x_i) by synthetic division (highest first)
    let mut q = vec![BigUint::from(0u8); n];
    let mut carry = BigUint::from(0u8);
    for d in (0..n).rev() {
      // coefficient of X^d in quotient
      let c = (&m[d + 1] + &carry) % p;
      q[d] = c.clone();
      carry = (c * xi) % p;
    }
    // N_i(x_i)
    let mut den = BigUint::from(0u8);
    for d in (0..n).rev() {
      den = (den * xi + &q[d]) % p;
    }
    let scale = (yi * modinv(&den, p)) % p;
    for d in 0..n {
      res[d] = (&res[d] + &q[d] * &scale) % p;
    }
  }
  res.reverse();
  res
}

/// `vh cert-record --out F --seed S --groups N --maxt T`
pub fn cert(a: &Args) -> Report {
  let mut rep = Report::new("cert-record");
  let seed = a.u64("seed", 1);
  let groups = a.u64("groups", 6);
  let maxt = a.u64("maxt", 16) as u32;
  let out = a.get("out").expect("--out");
  let mut f = std::io::BufWriter::new(std::fs::File::create(out).expect("create"));
  let mut rng = rng_from(seed, 202);
  let oprf = OprfServer::new(vec![0, 1, 2]).expect("oprf");
  let p = p_big();
  // --small N: N sharings (different measurements) at EACH of the thresholds 2..6 — a dealer whose
  // random source degenerates for some (threshold, message, coins) shows up only across many sharings
  let small = a.u64("small", 0);
  let groups = if small > 0 { small * 5 } else { groups };
  for g in 0..groups {
    // every threshold 2, 3, 4, ... is certified in turn (a dealing bug may depend on t mod k)
    let t: u32 = if small > 0 { 2 + (g % 5) as u32 } else if a.flag("sweep") { a.u64("mint", 2) as u32 + (g as u32) } else { match g % 5 { 0 => 2, 1 => 3, 2 => maxt, _ => rng.gen_range(2..=maxt) } };
    if t > maxt {
      break;
    }
    let n = t as usize + 2;
    let m: Vec<u8> = (0..rng.gen_range(0..40)).map(|_| rng.gen()).collect();
    let mut m = m;
    m.extend((g as u32).to_le_bytes());
    let e = vec![(g % 3) as u8];
    let src = if g % 4 == 3 { "oprf" } else { "local" };
    let mut pts: Vec<(BigUint, BigUint)> = Vec::new();
    for _ in 0..n {
      let c = match make_client(ClientCfg { m: m.clone(), e: e.clone(), t, aux: None, src: src.into() }, &oprf, &mut rep) {
        Some(c) => c,
        None => continue,
      };
      let l = layout(&c.share_bytes).expect("layout");
      let s = &c.share_bytes[l.s.0..l.s.1];
      if s.len() != 48 {
        rep.violation("C02", "inner share layout", "unexpected-inner-share-length",
          format!("inner Shamir share has {} bytes, expected x|y = 48", s.len()), json!({"t": t}));
        continue;
      }
      pts.push((BigUint::from_bytes_le(&s[..24]), BigUint::from_bytes_le(&s[24..])));
    }
    if pts.len() < n {
      continue;
    }
    rep.evaluations += n as u64;
    let coeffs = interpolate(&pts[..t as usize], &p);
    // sanity of the witness is TLC's job; the harness only refuses obviously broken input
    if coeffs.iter().any(|c| fp_from_big(c).is_none()) {
      continue;
    }
    writeln!(f, "{}", json!({"ev":"Cert","t":t,"group":g,
      "coeffs": coeffs.iter().map(limbs_of_big).collect::<Vec<_>>(),
      "pts": pts.iter().map(|(x, y)| json!([limbs_of_big(x), limbs_of_big(y)])).collect::<Vec<_>>() })).unwrap();
    rep.nontrivial(format!("cert:{g}:{t}"));
    rep.sample(json!({"group": g, "threshold": t, "reports": n, "source": src}));
  }
  f.flush().unwrap();
  rep.traces = 1;
  rep
}
