//! Randomness-server family (C14, and the export points of C11/C15):
//! binding A — BFS over TLC's state/successor table with real `ppoprf::Server` instances;
//! binding B — recording of long random histories for Trace_PPOPRF.
use crate::ggm::{export_bytes, import_server};
use crate::util::*;
use ppoprf::ppoprf::{Client, Point, Server};
use rand::Rng;
use serde_json::{json, Value};
use std::collections::{HashMap, HashSet, VecDeque};
use std::io::Write;

struct Succ {
  a: String,
  i: usize,
  t: u8,
  ok: bool,
  next: String,
}
struct Rec {
  keys: Vec<u64>,
  ans: Vec<Vec<u8>>,
  reg: Vec<Vec<u8>>,
  tags: Vec<u8>,
  succ: Vec<Succ>,
}

fn skey(v: &Value) -> String {
  v.to_string()
}

fn load(path: &str) -> HashMap<String, Rec> {
  let mut m = HashMap::new();
  for l in read_lines(path) {
    let v: Value = serde_json::from_str(&l).expect("bad line");
    let key = skey(&v["S"]);
    if m.contains_key(&key) {
      continue;
    }
    let keys = v["S"].as_array().unwrap().iter().map(|e| e[0].as_u64().unwrap()).collect();
    let ans = v["ans"].as_array().unwrap().iter().map(json_bytes).collect();
    let reg = v["reg"].as_array().unwrap().iter().map(json_bytes).collect();
    let succ = v["succ"]
      .as_array()
      .unwrap()
      .iter()
      .map(|s| Succ {
        a: s["a"].as_str().unwrap().to_string(),
        i: s["i"].as_u64().unwrap() as usize,
        t: s["t"].as_u64().unwrap() as u8,
        ok: s["ok"].as_u64().unwrap() == 1,
        next: skey(&s["S"]),
      })
      .collect();
    m.insert(key, Rec { keys, ans, reg, tags: json_bytes(&v["tags"]), succ });
  }
  m
}

/// What has been observed so far for each (key, tag, point): the 32-byte output.
pub struct Oracle {
  pub points: Vec<Point>,
  vals: HashMap<(u64, u8, usize), Vec<u8>>,
  owner: HashMap<Vec<u8>, (u64, u8, usize)>,
  pks: HashMap<u64, Vec<u8>>,
}

impl Oracle {
  pub fn new() -> Self {
    let p1 = Client::blind(b"verif input one").0;
    let p2 = Client::blind(b"").0;
    Oracle { points: vec![p1, p2], vals: HashMap::new(), owner: HashMap::new(), pks: HashMap::new() }
  }

  /// Full or light observation of one instance against the predicted answering set.
  pub fn observe(
    &mut self,
    s: &Server,
    key: u64,
    ans: &[u8],
    tags: &[u8],
    light: bool,
    hist: &Value,
    rep: &mut Report,
    ctx: &str,
  ) {
    // the public key never changes and is a function of the key
    let pk = guard(|| s.get_public_key().serialize_to_bincode().ok()).ok().flatten().unwrap_or_default();
    rep.evaluations += 1;
    match self.pks.get(&key) {
      None => {
        self.pks.insert(key, pk);
      }
      Some(p) if *p != pk => rep.violation(
        "C14",
        "Server::get_public_key",
        &format!("{ctx}:public-key-changed"),
        "the public key of an instance differs from the key it was created with".into(),
        json!({"history": hist}),
      ),
      _ => {}
    }
    for md in tags {
      let want = ans.contains(md);
      let npts = if light { 1 } else { self.points.len() };
      for pi in 0..npts {
        for verifiable in [false, true] {
          if verifiable && (light || pi > 0) {
            continue;
          }
          let pt = self.points[pi].clone();
          let r = guard(|| s.eval(&pt, *md, verifiable));
          rep.evaluations += 1;
          let got = match &r {
            Guard::Done(Ok(ev)) => Some(ev.output.as_bytes().to_vec()),
            _ => None,
          };
          if got.is_some() != want {
            rep.violation(
              "C14",
              "Server::eval",
              &format!("{ctx}:{}", if want { "answer-refused" } else { "answered-unexpectedly" }),
              format!(
                "tag {md}: specification says answers={want}, implementation answered={}{}",
                got.is_some(),
                if r.is_panic() { " (panic)" } else { "" }
              ),
              json!({"history": hist, "tag": md}),
            );
            continue;
          }
          if let Some(v) = got {
            if let Guard::Done(Ok(ev)) = &r {
              if verifiable != ev.proof.is_some() {
                rep.violation("C14", "Server::eval", "proof-presence",
                  format!("verifiable={verifiable} but proof present={}", ev.proof.is_some()),
                  json!({"history": hist, "tag": md}));
              }
            }
            let k = (key, *md, pi);
            match self.vals.get(&k) {
              None => {
                if let Some(o) = self.owner.get(&v) {
                  rep.violation(
                    "C14",
                    "Server::eval",
                    &format!("{ctx}:value-collision"),
                    format!("answers for {:?} and {:?} coincide", o, k),
                    json!({"history": hist, "tag": md}),
                  );
                }
                self.owner.insert(v.clone(), k);
                self.vals.insert(k, v);
              }
              Some(old) if *old != v => rep.violation(
                "C14",
                "Server::eval",
                &format!("{ctx}:answer-changed"),
                format!("the answer for (key {key}, tag {md}, point {pi}) changed"),
                json!({"history": hist, "tag": md}),
              ),
              _ => {}
            }
          }
        }
      }
    }
  }
}

fn make_servers(tbl: &HashMap<String, Rec>) -> (Server, Option<Server>) {
  let init = tbl.get("[[1,[]]]").expect("initial state [[1,[]]] missing from table");
  let s1 = Server::new(init.reg[0].clone()).expect("Server::new");
  let mut s2 = None;
  for r in tbl.values() {
    if let Some(p) = r.keys.iter().position(|k| *k == 2) {
      s2 = Some(Server::new(r.reg[p].clone()).expect("Server::new"));
      break;
    }
  }
  (s1, s2)
}

/// `vh srv-replay --states F --max-steps D`
pub fn replay(a: &Args) -> Report {
  let mut rep = Report::new("srv-replay");
  let tbl = load(a.get("states").expect("--states"));
  let max_steps = a.u64("max-steps", 4) as usize;
  let (s1, s2) = make_servers(&tbl);
  let mut orc = Oracle::new();
  let mut visited: HashSet<String> = HashSet::new();
  let mut q: VecDeque<(String, Vec<Server>, Vec<Value>)> = VecDeque::new();
  let k0 = "[[1,[]]]".to_string();
  visited.insert(k0.clone());
  q.push_back((k0, vec![s1], vec![]));
  let mut transitions = 0u64;
  while let Some((key, servers, hist)) = q.pop_front() {
    if rep.too_many() {
      break;
    }
    let rec = match tbl.get(&key) {
      Some(r) => r,
      None => continue,
    };
    let hj = Value::Array(hist.clone());
    rep.nontrivial(format!("st:{key}"));
    for (i, s) in servers.iter().enumerate() {
      orc.observe(s, rec.keys[i], &rec.ans[i], &rec.tags, false, &hj, &mut rep, "state");
    }
    if hist.len() >= max_steps {
      continue;
    }
    if rep.samples.len() < 3 && hist.len() == 3 {
      rep.sample(json!({"history": hist, "state": key, "answers": rec.ans}));
    }
    for sc in &rec.succ {
      let mut next = servers.clone();
      let step = json!({"a": sc.a, "i": sc.i, "t": sc.t});
      let mut h2 = hist.clone();
      h2.push(step);
      let hj2 = Value::Array(h2.clone());
      transitions += 1;
      rep.evaluations += 1;
      rep.nontrivial(format!("tr:{key}>{}{}:{}", sc.a, sc.i, sc.t));
      let mut touched = sc.i.saturating_sub(1);
      match sc.a.as_str() {
        "P" => {
          let r = guard(|| next[sc.i - 1].puncture(sc.t));
          let ok = matches!(r, Guard::Done(Ok(())));
          // C14 speaks about ANSWERS, not about what puncture() returns: puncturing a tag that
          // answers must work (or it could never stop answering); what the call returns for an
          // unregistered or an already punctured tag is the implementation's business
          if ok != sc.ok {
            rep.count("puncture_results_differing_from_reference_model", 1);
          }
          if !ok && rec.ans[sc.i - 1].contains(&sc.t) {
            rep.violation(
              "C14",
              "Server::puncture",
              "puncture-refused",
              format!("puncture({}) on instance {} refused although the tag is registered and unpunctured{}", sc.t, sc.i,
                if r.is_panic() { " (panic)" } else { "" }),
              json!({"history": hj2}),
            );
            continue;
          }
        }
        "C" => {
          let c = next[sc.i - 1].clone();
          next.push(c);
          touched = next.len() - 1;
        }
        "X" => {
          let bytes = export_bytes(&next[sc.i - 1]);
          match guard(|| import_server(&bytes)) {
            Guard::Done(Some(s)) => next.push(s),
            _ => {
              rep.violation("C14", "Server::set_private_key", "import-failed",
                "exported key state could not be imported".into(), json!({"history": hj2}));
              continue;
            }
          }
          touched = next.len() - 1;
        }
        "N" => {
          next.push(s2.as_ref().expect("second server").clone());
          touched = next.len() - 1;
        }
        "S" => {
          // instance t installs the state exported by instance i
          let (i, j) = (sc.i - 1, sc.t as usize - 1);
          if i == j {
            continue;
          }
          let bytes = export_bytes(&next[i]);
          match bincode::deserialize::<ppoprf::ppoprf::ServerKeyState>(&bytes) {
            Ok(st) => {
              if guard(|| next[j].set_private_key(st)).is_panic() {
                rep.violation("C14", "Server::set_private_key", "sync-panicked", "set_private_key panicked".into(), json!({"history": hj2}));
                continue;
              }
            }
            Err(_) => {
              rep.violation("C14", "Server::get_private_key", "export-not-decodable", "exported key state does not deserialise".into(), json!({"history": hj2}));
              continue;
            }
          }
          touched = j;
        }
        _ => continue,
      }
      let nrec = match tbl.get(&sc.next) {
        Some(r) => r,
        None => continue,
      };
      if nrec.keys.len() != next.len() {
        continue;
      }
      let is_new = !visited.contains(&sc.next);
      // every instance of the successor state is observed; the touched one fully
      for (i, s) in next.iter().enumerate() {
        if is_new && h2.len() <= max_steps {
          // it will be observed in full when dequeued; here only the others, lightly
          if i == touched {
            continue;
          }
        }
        orc.observe(s, nrec.keys[i], &nrec.ans[i], &nrec.tags, i != touched, &hj2, &mut rep, "after-step");
      }
      if is_new {
        visited.insert(sc.next.clone());
        q.push_back((sc.next.clone(), next, h2));
      }
    }
  }
  rep.traces = 1;
  rep.count("states_visited", visited.len() as u64);
  rep.count("transitions_replayed", transitions);
  rep.count("spec_states", tbl.len() as u64);
  rep
}

// ---------------------------------------------------------------------------
// Binding B: long random histories, logged for Trace_PPOPRF.

/// `vh srv-record --out F --seed S --runs N --steps K`
pub fn record(a: &Args) -> Report {
  let mut rep = Report::new("srv-record");
  let seed = a.u64("seed", 1);
  let runs = a.u64("runs", 2);
  let steps = a.u64("steps", 200);
  let max_inst = a.u64("max-inst", 5) as usize;
  let out = a.get("out").expect("--out");
  let mut f = std::io::BufWriter::new(std::fs::File::create(out).expect("create"));
  let universe: Vec<u8> = vec![0, 1, 2, 127, 128, 255];
  let points = [Client::blind(b"verif input one").0, Client::blind(b"other").0];
  // interning of observed byte strings, by first occurrence (pure function of the log)
  let mut ids: HashMap<Vec<u8>, u64> = HashMap::new();
  let mut intern = |b: &[u8]| -> u64 {
    let n = ids.len() as u64 + 1;
    *ids.entry(b.to_vec()).or_insert(n)
  };
  for run in 0..runs {
    let mut rng = rng_from(seed, 500 + run);
    let regs: Vec<Vec<u8>> = vec![vec![0, 1, 128, 255], vec![1, 2, 255]];
    let mut servers: Vec<Server> = Vec::new();
    let mut keyid: Vec<u64> = Vec::new();
    writeln!(f, "{}", json!({"ev": "Reset"})).unwrap();
    servers.push(Server::new(regs[0].clone()).unwrap());
    keyid.push(run * 10 + 1);
    writeln!(f, "{}", json!({"ev":"New","k":keyid[0],"reg":regs[0]})).unwrap();
    let mut have_other = false;
    for step in 0..steps {
      let i = rng.gen_range(0..servers.len());
      let choice = rng.gen_range(0..100);
      if choice < 22 {
        let t = universe[rng.gen_range(0..universe.len())];
        let r = guard(|| servers[i].puncture(t));
        let ok = matches!(r, Guard::Done(Ok(())));
        writeln!(f, "{}", json!({"ev":"Puncture","i":i+1,"t":t,"ok": ok as u8})).unwrap();
      } else if choice < 27 && servers.len() < max_inst {
        let c = servers[i].clone();
        servers.push(c);
        keyid.push(keyid[i]);
        writeln!(f, "{}", json!({"ev":"Clone","i":i+1})).unwrap();
      } else if choice < 33 && servers.len() < max_inst {
        let bytes = export_bytes(&servers[i]);
        if let Guard::Done(Some(s)) = guard(|| import_server(&bytes)) {
          servers.push(s);
          keyid.push(keyid[i]);
          writeln!(f, "{}", json!({"ev":"ExpImp","i":i+1})).unwrap();
        } else {
          rep.violation("C14", "Server::set_private_key", "import-failed",
            "exported key state could not be imported".into(), json!({"run": run, "step": step}));
        }
      } else if choice < 38 && choice >= 33 && servers.len() >= 2 {
        let j = (i + 1 + rng.gen_range(0..servers.len() - 1)) % servers.len();
        let bytes = export_bytes(&servers[i]);
        if let Ok(st) = bincode::deserialize::<ppoprf::ppoprf::ServerKeyState>(&bytes) {
          let _ = guard(|| servers[j].set_private_key(st));
          keyid[j] = keyid[i];
          writeln!(f, "{}", json!({"ev":"Sync","i":i+1,"j":j+1})).unwrap();
        }
      } else if choice < 41 && !have_other && servers.len() < max_inst {
        servers.push(Server::new(regs[1].clone()).unwrap());
        keyid.push(run * 10 + 2);
        have_other = true;
        writeln!(f, "{}", json!({"ev":"New","k":run*10+2,"reg":regs[1]})).unwrap();
      } else if choice < 46 {
        let pk = servers[i].get_public_key().serialize_to_bincode().unwrap_or_default();
        writeln!(f, "{}", json!({"ev":"Pk","i":i+1,"pid":intern(&pk)})).unwrap();
      } else {
        let t = universe[rng.gen_range(0..universe.len())];
        let pi = rng.gen_range(0..points.len());
        let verifiable = rng.gen_range(0..4) == 0;
        let r = guard(|| servers[i].eval(&points[pi], t, verifiable));
        let (ok, vid) = match &r {
          Guard::Done(Ok(ev)) => (1, intern(ev.output.as_bytes())),
          _ => (0, 0),
        };
        writeln!(f, "{}", json!({"ev":"Eval","i":i+1,"t":t,"pt":pi+1,"ok":ok,"vid":vid})).unwrap();
      }
      rep.evaluations += 1;
      rep.nontrivial(format!("{run}:{step}"));
    }
    rep.traces += 1;
    rep.sample(json!({"run": run, "steps": steps, "instances_at_end": servers.len()}));
  }
  f.flush().unwrap();
  rep
}

// ---------------------------------------------------------------------------
/// `vh srv-alltags --seed S` (C14): the answer/puncture rule instantiated for EVERY tag of the
/// 8-bit universe: a server registered for all 256 tags (and one registered for the even tags)
/// answers exactly the registered, unpunctured tags; puncturing tag t changes nothing for any
/// other tag (in particular t^1, t+1, t-1, t^128), for the public key, or for a clone taken before.
pub fn alltags(a: &Args) -> Report {
  let mut rep = Report::new("srv-alltags");
  let seed = a.u64("seed", 1);
  let mut rng = rng_from(seed, 1414);
  let pt = Client::blind(b"all tags").0;
  // constructor lists with repeated / unsorted tags: the registered set is the set of listed tags
  for list in [vec![1u8, 1, 2], vec![0, 0, 1, 2, 3], vec![7, 254, 254, 255], vec![5, 5], vec![2, 1, 2], vec![255, 0, 255, 128, 0], vec![9, 8, 7, 7, 7, 6]] {
    let srv = match guard(|| Server::new(list.clone())) {
      Guard::Done(Ok(s)) => s,
      _ => {
        rep.violation("C14", "Server::new", "alltags:new-failed", format!("Server::new({list:?}) failed"), json!({"list": list}));
        continue;
      }
    };
    let pk = srv.get_public_key();
    for md in 0..=255u8 {
      rep.evaluations += 1;
      let want = list.contains(&md);
      let r = guard(|| srv.eval(&pt, md, true));
      let got = matches!(r, Guard::Done(Ok(_)));
      if got != want {
        rep.violation("C14", "Server::eval", "alltags:constructor-list-registration",
          format!("Server::new({list:?}): tag {md} listed={want} but answered={got}"), json!({"list": list, "tag": md}));
      } else if let Guard::Done(Ok(ev)) = r {
        // the answer is consistent with the public key committed to for that tag
        if !matches!(guard(|| Client::verify(&pk, &pt, &ev, md)), Guard::Done(true)) {
          rep.violation("C14", "Server::new", "alltags:public-key-inconsistent",
            format!("Server::new({list:?}): the proof for tag {md} does not verify under the server's own public key"), json!({"list": list, "tag": md}));
        }
      }
    }
    rep.nontrivial(format!("ctor:{list:?}"));
  }
  for (name, tags) in [("all", (0..=255u8).collect::<Vec<u8>>()), ("even", (0..=255u8).filter(|t| t % 2 == 0).collect())] {
    let mut s = match Server::new(tags.clone()) {
      Ok(s) => s,
      Err(_) => {
        rep.violation("C14", "Server::new", "alltags:new-failed", "Server::new failed".into(), json!({"tags": name}));
        continue;
      }
    };
    let pk0 = s.get_public_key().serialize_to_bincode().unwrap_or_default();
    let before = s.clone();
    let val = |srv: &Server, md: u8| -> Option<Vec<u8>> {
      match guard(|| srv.eval(&pt, md, false)) {
        Guard::Done(Ok(ev)) => Some(ev.output.as_bytes().to_vec()),
        _ => None,
      }
    };
    let fresh: Vec<Option<Vec<u8>>> = (0..=255u8).map(|md| val(&s, md)).collect();
    for md in 0..=255u8 {
      rep.evaluations += 1;
      if fresh[md as usize].is_some() != tags.contains(&md) {
        rep.violation("C14", "Server::eval", "alltags:registration",
          format!("tag {md}: registered={} but answered={}", tags.contains(&md), fresh[md as usize].is_some()), json!({"tags": name, "tag": md}));
      }
    }
    let mut order: Vec<u8> = (0..=255u8).collect();
    use rand::seq::SliceRandom;
    order.shuffle(&mut rng);
    let mut punct: std::collections::BTreeSet<u8> = std::collections::BTreeSet::new();
    for md in order {
      let r = guard(|| s.puncture(md));
      rep.evaluations += 1;
      if !matches!(r, Guard::Done(Ok(()))) && (tags.contains(&md) || r.is_panic()) {
        rep.violation("C14", "Server::puncture", "alltags:puncture-refused",
          format!("puncture({md}) refused after {} punctures", punct.len()), json!({"tags": name, "tag": md, "punctured_before": punct.len()}));
        continue;
      }
      punct.insert(md);
      rep.nontrivial(format!("{name}:{md}"));
      // the punctured tag is dead; its relatives and a few others keep their original answers
      for other in [md, md ^ 1, md.wrapping_add(1), md.wrapping_sub(1), md ^ 128, md ^ 64, 0, 255] {
        rep.evaluations += 1;
        let now = val(&s, other);
        let want = if punct.contains(&other) { None } else { fresh[other as usize].clone() };
        if now != want {
          rep.violation("C14", "Server::eval", if want.is_none() { "alltags:punctured-tag-answers" } else { "alltags:other-tag-affected" },
            format!("after puncturing {md} ({} punctures so far) tag {other}: expected answer={}, got answer={}, same value={}",
              punct.len(), want.is_some(), now.is_some(), now == want),
            json!({"tags": name, "punctured": md, "tag": other, "count": punct.len()}));
        }
      }
      if punct.len() % 32 == 0 {
        let pk = s.get_public_key().serialize_to_bincode().unwrap_or_default();
        if pk != pk0 {
          rep.violation("C14", "Server::get_public_key", "alltags:public-key-changed", "public key changed by punctures".into(), json!({"tags": name}));
        }
        // the clone taken before any puncture still answers everything it answered
        for other in [md, 0u8, 255] {
          if val(&before, other) != fresh[other as usize] {
            rep.violation("C14", "Server::clone", "alltags:clone-affected", "a clone taken before the punctures was affected".into(), json!({"tags": name, "tag": other}));
          }
        }
      }
    }
    rep.traces += 1;
    rep.sample(json!({"registered": name, "tags_punctured": punct.len()}));
  }
  // epoch rotation with a replica: every tag registered, tags retired in ascending, descending and
  // bit-reversed order (the orders that drive the key to its largest states), the key state
  // exported after EVERY puncture and installed in a fresh instance, which must answer exactly
  // what the exporter answers
  {
    use crate::ggm::{export_bytes, import_server};
    let pt = Client::blind(b"rotation").0;
    let ans = |s: &Server, md: u8| -> Option<Vec<u8>> {
      match guard(|| s.eval(&pt, md, false)) {
        Guard::Done(Ok(ev)) => Some(ev.output.as_bytes().to_vec()),
        _ => None,
      }
    };
    let orders: Vec<(&str, Vec<u8>)> = vec![
      ("ascending", (0..=255u8).collect()),
      ("descending", (0..=255u8).rev().collect()),
      ("bit-reversed", (0..=255u8).map(|x| x.reverse_bits()).collect()),
    ];
    for (oname, order) in orders {
      let mut s = match Server::new((0..=255u8).collect()) {
        Ok(s) => s,
        Err(_) => continue,
      };
      // a worker copy refreshed in place (`Clone::clone_from`) after every epoch
      let mut worker = s.clone();
      for (k, md) in order.iter().enumerate() {
        if !matches!(guard(|| s.puncture(*md)), Guard::Done(Ok(()))) {
          rep.violation("C14", "Server::puncture", "rotation:puncture-refused",
            format!("puncture({md}) of a live tag refused at step {k} of the {oname} rotation"), json!({"order": oname, "step": k, "tag": md}));
          break;
        }
        rep.evaluations += 1;
        if guard(|| worker.clone_from(&s)).is_panic() {
          rep.violation("C14", "Server::clone_from", "rotation:clone-from-panicked", "clone_from panicked".into(), json!({"order": oname, "step": k}));
        } else {
          for t in [*md, order[(k + 1) % 256], order[(k + 9) % 256], order[255]] {
            if ans(&worker, t) != ans(&s, t) {
              rep.violation("C14", "Server::clone_from", "rotation:refreshed-copy-differs",
                format!("after {} punctures ({oname}) a copy refreshed with clone_from and its source disagree on tag {t}", k + 1),
                json!({"order": oname, "step": k, "tag": t}));
              break;
            }
          }
        }
        let bytes = export_bytes(&s);
        match guard(|| import_server(&bytes)) {
          Guard::Done(Some(replica)) => {
            let probes = [*md, order[(k + 1) % 256], order[(k + 7) % 256], order[255], md.wrapping_add(128)];
            for t in probes {
              if ans(&replica, t) != ans(&s, t) {
                rep.violation("C14", "Server::set_private_key", "rotation:replica-differs",
                  format!("after {} punctures ({oname}) the restored replica and the exporter disagree on tag {t}", k + 1),
                  json!({"order": oname, "step": k, "tag": t}));
                break;
              }
            }
          }
          _ => {
            rep.violation("C14", "Server::set_private_key", "rotation:import-failed",
              format!("the key state exported after {} punctures ({oname} order, {} bytes) cannot be installed in a fresh instance", k + 1, bytes.len()),
              json!({"order": oname, "step": k, "state_bytes": bytes.len()}));
            break;
          }
        }
        rep.nontrivial(format!("rotation:{oname}:{k}"));
      }
      rep.traces += 1;
    }
  }
  rep
}
