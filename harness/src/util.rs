//! Shared plumbing: guarded calls, report/violation records, seeded RNG, arg parsing.
use serde_json::{json, Value};
use std::collections::{BTreeMap, HashSet};
use std::panic::{catch_unwind, AssertUnwindSafe};

/// Outcome of a guarded call into the library under test.
pub enum Guard<T> {
  Done(T),
  Panic(String),
}

thread_local! {
  static IN_GUARD: std::cell::Cell<u32> = std::cell::Cell::new(0);
}
static LAST_PANIC: std::sync::Mutex<String> = std::sync::Mutex::new(String::new());

/// Message and location of the last panic that happened OUTSIDE a guard (a harness panic).
pub fn last_harness_panic() -> String {
  LAST_PANIC.lock().map(|s| s.clone()).unwrap_or_default()
}

/// Panics inside `guard` (code under test) are data and stay silent; a panic of the
/// harness itself is printed so that it shows up as a tool error.
pub fn install_quiet_panic_hook() {
  std::panic::set_hook(Box::new(|info| {
    if IN_GUARD.with(|g| g.get()) == 0 {
      eprintln!("harness panic: {info}");
      if let Ok(mut s) = LAST_PANIC.lock() {
        *s = format!("{info}");
      }
    }
  }));
}

/// Run `f`, turning a panic into data.
pub fn guard<T, F: FnOnce() -> T>(f: F) -> Guard<T> {
  IN_GUARD.with(|g| g.set(g.get() + 1));
  let r = catch_unwind(AssertUnwindSafe(f));
  IN_GUARD.with(|g| g.set(g.get() - 1));
  match r {
    Ok(v) => Guard::Done(v),
    Err(e) => {
      let msg = if let Some(s) = e.downcast_ref::<&str>() {
        s.to_string()
      } else if let Some(s) = e.downcast_ref::<String>() {
        s.clone()
      } else {
        "panic".to_string()
      };
      Guard::Panic(msg)
    }
  }
}

impl<T> Guard<T> {
  pub fn is_panic(&self) -> bool {
    matches!(self, Guard::Panic(_))
  }
  pub fn ok(self) -> Option<T> {
    match self {
      Guard::Done(v) => Some(v),
      Guard::Panic(_) => None,
    }
  }
}

fn case_file() -> Option<&'static str> {
  static F: std::sync::OnceLock<Option<String>> = std::sync::OnceLock::new();
  F.get_or_init(|| std::env::var("VH_CASE_FILE").ok()).as_deref()
}

#[derive(Clone, Debug)]
pub struct Violation {
  pub property: String,
  pub site: String,
  pub input_class: String,
  pub detail: String,
  pub replay: Value,
}

pub struct Report {
  pub family: String,
  pub evaluations: u64,
  pub traces: u64,
  pub nontrivial: HashSet<String>,
  pub violations: Vec<Violation>,
  pub samples: Vec<Value>,
  pub counters: BTreeMap<String, u64>,
  pub max_violations: usize,
  seen_viol: HashSet<String>,
}

impl Report {
  pub fn new(family: &str) -> Self {
    Report {
      family: family.to_string(),
      evaluations: 0,
      traces: 0,
      nontrivial: HashSet::new(),
      violations: Vec::new(),
      samples: Vec::new(),
      counters: BTreeMap::new(),
      max_violations: 40,
      seen_viol: HashSet::new(),
    }
  }
  pub fn count(&mut self, k: &str, n: u64) {
    *self.counters.entry(k.to_string()).or_insert(0) += n;
  }
  pub fn nontrivial(&mut self, key: String) {
    // post-mortem aid: when the driver re-runs a command whose process was killed by an abort in
    // the code under test (allocation failure, stack overflow, double panic — nothing catch_unwind
    // can turn into data), it sets VH_CASE_FILE and reads the label of the last case started
    if let Some(path) = case_file() {
      let _ = std::fs::write(path, &key);
    }
    self.nontrivial.insert(key);
  }
  pub fn sample(&mut self, v: Value) {
    if self.samples.len() < 5 {
      self.samples.push(v);
    }
  }
  /// Record a violation; de-duplicated on (property, site, input_class).
  pub fn violation(
    &mut self,
    property: &str,
    site: &str,
    input_class: &str,
    detail: String,
    replay: Value,
  ) {
    let key = format!("{property}|{site}|{input_class}");
    self.count(&format!("violations_{property}"), 1);
    if self.seen_viol.contains(&key) || self.violations.len() >= self.max_violations {
      return;
    }
    self.seen_viol.insert(key);
    self.violations.push(Violation {
      property: property.to_string(),
      site: site.to_string(),
      input_class: input_class.to_string(),
      detail,
      replay,
    });
  }
  pub fn too_many(&self) -> bool {
    self.violations.len() >= self.max_violations
  }
  pub fn emit(&self) {
    let v = json!({
      "family": self.family,
      "evaluations": self.evaluations,
      "traces": self.traces,
      "distinct_nontrivial": self.nontrivial.len(),
      "violations": self.violations.iter().map(|x| json!({
        "property": x.property, "site": x.site, "input_class": x.input_class,
        "detail": x.detail, "replay": x.replay})).collect::<Vec<_>>(),
      "samples": self.samples,
      "counters": self.counters,
    });
    println!("VHREPORT {}", v);
  }
}

/// Minimal `--key value` / `--flag` argument map.
pub struct Args {
  pub pos: Vec<String>,
  pub kv: BTreeMap<String, String>,
}
impl Args {
  pub fn parse(a: &[String]) -> Args {
    let mut pos = Vec::new();
    let mut kv = BTreeMap::new();
    let mut i = 0;
    while i < a.len() {
      if let Some(k) = a[i].strip_prefix("--") {
        if i + 1 < a.len() && !a[i + 1].starts_with("--") {
          kv.insert(k.to_string(), a[i + 1].clone());
          i += 2;
        } else {
          kv.insert(k.to_string(), "1".to_string());
          i += 1;
        }
      } else {
        pos.push(a[i].clone());
        i += 1;
      }
    }
    Args { pos, kv }
  }
  pub fn get(&self, k: &str) -> Option<&str> {
    self.kv.get(k).map(|s| s.as_str())
  }
  pub fn u64(&self, k: &str, d: u64) -> u64 {
    self.get(k).and_then(|s| s.parse().ok()).unwrap_or(d)
  }
  pub fn str(&self, k: &str, d: &str) -> String {
    self.get(k).unwrap_or(d).to_string()
  }
  pub fn flag(&self, k: &str) -> bool {
    self.kv.contains_key(k)
  }
}

pub fn rng_from(seed: u64, stream: u64) -> rand_chacha::ChaCha8Rng {
  use rand_core::SeedableRng;
  let mut s = [0u8; 32];
  s[..8].copy_from_slice(&seed.to_le_bytes());
  s[8..16].copy_from_slice(&stream.to_le_bytes());
  s[16] = 0x5a;
  rand_chacha::ChaCha8Rng::from_seed(s)
}

pub fn hex(b: &[u8]) -> String {
  let mut s = String::with_capacity(b.len() * 2);
  for x in b {
    s.push_str(&format!("{:02x}", x));
  }
  s
}

pub fn unhex(s: &str) -> Vec<u8> {
  (0..s.len() / 2)
    .map(|i| u8::from_str_radix(&s[2 * i..2 * i + 2], 16).unwrap_or(0))
    .collect()
}

pub fn bytes_json(b: &[u8]) -> Value {
  Value::Array(b.iter().map(|x| json!(*x)).collect())
}

pub fn json_bytes(v: &Value) -> Vec<u8> {
  v.as_array()
    .map(|a| a.iter().map(|x| x.as_u64().unwrap_or(0) as u8).collect())
    .unwrap_or_default()
}

/// Does `hay` contain `needle` at any offset?
pub fn contains(hay: &[u8], needle: &[u8]) -> Option<usize> {
  if needle.is_empty() || needle.len() > hay.len() {
    return None;
  }
  hay.windows(needle.len()).position(|w| w == needle)
}

pub fn read_lines(path: &str) -> Vec<String> {
  std::fs::read_to_string(path)
    .unwrap_or_else(|e| {
      eprintln!("cannot read {path}: {e}");
      std::process::exit(2)
    })
    .lines()
    .filter(|l| !l.trim().is_empty())
    .map(|l| l.to_string())
    .collect()
}
