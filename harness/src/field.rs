//! Field family (C07): every event is one operation of star_sharks::Fp, logged with
//! operands/results as base-256 limbs for Trace_Field (TLC as big-integer oracle).
use crate::util::*;
use ff::{Field, PrimeField};
use num_bigint::BigUint;
use rand::Rng;
use serde_json::{json, Value};
use star_sharks::{Fp, FpRepr};
use std::convert::TryFrom;
use std::io::Write;

pub fn p_big() -> BigUint {
  (BigUint::from(1u8) << 128usize) + BigUint::from(12451u32)
}

/// canonical limbs (little-endian, no trailing zero) of an element, through to_repr
pub fn limbs(x: &Fp) -> Vec<u8> {
  let r = x.to_repr();
  let mut v = r.as_ref().to_vec();
  while v.last() == Some(&0) {
    v.pop();
  }
  v
}

pub fn limbs_of_big(b: &BigUint) -> Vec<u8> {
  let mut v = b.to_bytes_le();
  while v.last() == Some(&0) {
    v.pop();
  }
  v
}

pub fn fp_from_big(b: &BigUint) -> Option<Fp> {
  let mut bytes = b.to_bytes_le();
  if bytes.len() > 24 {
    return None;
  }
  bytes.resize(24, 0);
  let mut arr = [0u8; 24];
  arr.copy_from_slice(&bytes);
  Option::from(Fp::from_repr(FpRepr(arr)))
}

fn lattice() -> Vec<BigUint> {
  let p = p_big();
  let one = BigUint::from(1u8);
  let two64: BigUint = BigUint::from(1u8) << 64usize;
  let two128: BigUint = BigUint::from(1u8) << 128usize;
  let half: BigUint = (&p - &one) >> 1usize;
  let mut v = vec![
    BigUint::from(0u8), one.clone(), BigUint::from(2u8), BigUint::from(3u8),
    &two64 - &one, two64.clone(), &two64 + &one,
    &two128 - &one, two128.clone(), &two128 + &one,
    half.clone(), &half + &one, &half - &one,
    &p - BigUint::from(2u8), &p - &one,
    BigUint::from(12450u32), BigUint::from(12451u32), BigUint::from(12452u32),
    (BigUint::from(1u8) << 127usize), (BigUint::from(1u8) << 96usize) - &one, &two128 + BigUint::from(12449u32),
  ];
  v.retain(|x| x < &p);
  v
}

fn rand_elem(rng: &mut impl Rng) -> BigUint {
  let p = p_big();
  loop {
    let mut b = [0u8; 17];
    rng.fill(&mut b);
    b[16] &= 1;
    let x = BigUint::from_bytes_le(&b);
    if x < p {
      return x;
    }
  }
}

/// `vh field-record --out F --seed S --n N [--sqrt-full K]`
pub fn record(a: &Args) -> Report {
  let mut rep = Report::new("field-record");
  let seed = a.u64("seed", 1);
  let n = a.u64("n", 600);
  let sqrt_full = a.u64("sqrt-full", 6);
  let out = a.get("out").expect("--out");
  let mut f = std::io::BufWriter::new(std::fs::File::create(out).expect("create"));
  let mut rng = rng_from(seed, 707);
  let lat = lattice();
  let mut ev = |v: Value, key: String, rep: &mut Report| {
    writeln!(f, "{}", v).unwrap();
    rep.evaluations += 1;
    rep.nontrivial(key);
    if rep.samples.len() < 5 && rep.evaluations % 97 == 5 {
      rep.sample(v);
    }
  };

  // --- operand pairs: lattice x lattice, then seeded uniform ---
  let mut pairs: Vec<(BigUint, BigUint)> = Vec::new();
  for x in &lat {
    for y in &lat {
      pairs.push((x.clone(), y.clone()));
    }
  }
  // spread the lattice pairs over the ops, then fill with random operands
  let mut k = 0usize;
  let total = n as usize;
  let ops = ["add", "sub", "mul", "neg", "double", "square", "inv", "sqrtok"];
  while (rep.evaluations as usize) < total {
    let (xa, xb) = if k < pairs.len() {
      pairs[(k * 7 + (seed as usize)) % pairs.len()].clone()
    } else {
      (rand_elem(&mut rng), rand_elem(&mut rng))
    };
    let op = ops[k % ops.len()];
    k += 1;
    let (fa, fb) = match (fp_from_big(&xa), fp_from_big(&xb)) {
      (Some(a), Some(b)) => (a, b),
      _ => {
        rep.violation("C07", "Fp::from_repr", "canonical-rejected",
          "a canonical encoding (integer below p) was rejected".into(), json!({"a": limbs_of_big(&xa), "b": limbs_of_big(&xb)}));
        continue;
      }
    };
    let key = format!("{op}:{}:{}", hex(&limbs_of_big(&xa)), hex(&limbs_of_big(&xb)));
    match op {
      "add" | "sub" | "mul" => {
        let r = match guard(|| match op {
          "add" => fa + fb,
          "sub" => fa - fb,
          _ => fa * fb,
        }) {
          Guard::Done(r) => r,
          _ => continue,
        };
        ev(json!({"ev":"bin","op":op,"a":limbs(&fa),"b":limbs(&fb),"r":limbs(&r)}), key, &mut rep);
      }
      "neg" | "double" | "square" => {
        let r = match op {
          "neg" => -fa,
          "double" => fa.double(),
          _ => fa.square(),
        };
        ev(json!({"ev":"un","op":op,"a":limbs(&fa),"r":limbs(&r)}), key, &mut rep);
      }
      "inv" => {
        let r: Option<Fp> = Option::from(fa.invert());
        ev(json!({"ev":"inv","a":limbs(&fa),"some": r.is_some() as u8, "r": r.map(|x| limbs(&x)).unwrap_or_default()}), key, &mut rep);
      }
      _ => {
        // square roots: of a square (always a residue) — bulk check r^2 = a
        let sq = fa.square();
        let r: Option<Fp> = Option::from(sq.sqrt());
        match r {
          Some(x) => ev(json!({"ev":"sqrtok","a":limbs(&sq),"r":limbs(&x)}), key, &mut rep),
          None => rep.violation("C07", "Fp::sqrt", "residue-without-root",
            "sqrt of a square returned None".into(), json!({"a": limbs(&sq)})),
        }
      }
    }
  }
  // --- square root with the Euler oracle (expensive in TLC: one 128-bit exponentiation) ---
  for i in 0..sqrt_full {
    let x = if i < 3 { lat[(i as usize * 5 + 2) % lat.len()].clone() } else { rand_elem(&mut rng) };
    let fa = fp_from_big(&x).unwrap();
    let r: Option<Fp> = Option::from(fa.sqrt());
    ev(json!({"ev":"sqrt","a":limbs(&fa),"some": r.is_some() as u8, "r": r.map(|x| limbs(&x)).unwrap_or_default()}),
       format!("sqrt:{}", hex(&limbs(&fa))), &mut rep);
  }
  // --- exponentiation ---
  let p = p_big();
  let exps: Vec<BigUint> = vec![BigUint::from(0u8), BigUint::from(1u8), BigUint::from(2u8),
    &p - BigUint::from(2u8), &p - BigUint::from(1u8), BigUint::from(rng.gen::<u64>())];
  for (i, e) in exps.iter().enumerate() {
    if i >= 3 && (a.u64("pow-full", 3) as usize) < i - 2 {
      continue;
    }
    let x = if i % 2 == 0 { rand_elem(&mut rng) } else { lat[(i * 3 + 1) % lat.len()].clone() };
    let fa = fp_from_big(&x).unwrap();
    let mut e64 = [0u64; 3];
    for (j, d) in e.to_u64_digits().iter().enumerate() {
      e64[j] = *d;
    }
    let r = fa.pow_vartime(e64);
    let r2 = fa.pow(e64);
    if r != r2 {
      rep.violation("C07", "Fp::pow", "pow-vs-pow_vartime", "pow and pow_vartime disagree".into(), json!({"a": limbs(&fa)}));
    }
    ev(json!({"ev":"pow","a":limbs(&fa),"e":limbs_of_big(e),"r":limbs(&r)}), format!("pow:{i}"), &mut rep);
  }
  // --- decoding of 24-byte strings ---
  let mut strings: Vec<Vec<u8>> = Vec::new();
  let enc = |b: &BigUint| -> Vec<u8> {
    let mut v = b.to_bytes_le();
    v.resize(24, 0);
    v
  };
  for x in &lat {
    strings.push(enc(x));
  }
  let one = BigUint::from(1u8);
  for x in [p.clone(), &p + &one, (&p << 1usize) - &one, &p << 1usize, (BigUint::from(1u8) << 129usize), (BigUint::from(1u8) << 136usize),
            (BigUint::from(1u8) << 191usize), (BigUint::from(1u8) << 192usize) - &one, &p + BigUint::from(12451u32)] {
    strings.push(enc(&x));
  }
  for hb in 17..24 {
    // a canonical value with one high byte set
    let mut v = enc(&lat[hb % lat.len()]);
    v[hb] = 1 << (hb % 8);
    strings.push(v);
  }
  for _ in 0..(n / 10).max(20) {
    let mut v = [0u8; 24];
    rng.fill(&mut v);
    match rng.gen_range(0..3) {
      0 => {
        for b in v.iter_mut().skip(17) {
          *b = 0;
        }
        v[16] &= 1;
      }
      1 => {
        for b in v.iter_mut().skip(17) {
          *b = 0;
        }
        v[16] &= 3;
      }
      _ => {}
    }
    strings.push(v.to_vec());
  }
  // the same strings through the share decoder, as x-coordinate and as y-coordinate
  for s in &strings {
    for pos in ["x", "y"] {
      let mut b: Vec<u8> = Vec::new();
      let mut one = vec![0u8; 24];
      one[0] = 1;
      if pos == "x" {
        b.extend(s);
        b.extend(&one);
      } else {
        b.extend(&one);
        b.extend(s);
      }
      let r = guard(|| star_sharks::Share::try_from(b.as_slice()).ok().map(|sh| Vec::<u8>::from(&sh)));
      let (ok, back) = match r {
        Guard::Done(Some(v)) => (1, v),
        _ => (0, vec![]),
      };
      ev(json!({"ev":"sharedec","pos":pos,"bytes": s, "some": ok, "back": back, "whole": b}),
         format!("sharedec:{pos}:{}", hex(s)), &mut rep);
    }
  }
  for s in strings {
    let mut arr = [0u8; 24];
    arr.copy_from_slice(&s);
    let r: Option<Fp> = Option::from(Fp::from_repr(FpRepr(arr)));
    let back = r.map(|x| x.to_repr().as_ref().to_vec()).unwrap_or_default();
    ev(json!({"ev":"from","bytes": s, "some": r.is_some() as u8, "r": r.map(|x| limbs(&x)).unwrap_or_default(), "back": back}),
       format!("from:{}", hex(&s)), &mut rep);
    if let Some(x) = r {
      ev(json!({"ev":"to","a":limbs(&x),"bytes": x.to_repr().as_ref().to_vec()}), format!("to:{}", hex(&s)), &mut rep);
    }
  }
  // --- constants (last, so that a rejected constant does not hide the arithmetic events) ---
  {
    let ms = Fp::MODULUS;
    let mb = if let Some(h) = ms.strip_prefix("0x") {
      BigUint::parse_bytes(h.as_bytes(), 16)
    } else {
      BigUint::parse_bytes(ms.as_bytes(), 10)
    }
    .unwrap_or_default();
    ev(json!({"ev":"consts","modulus": limbs_of_big(&mb), "num_bits": Fp::NUM_BITS, "capacity": Fp::CAPACITY,
      "two_inv": limbs(&Fp::TWO_INV), "generator": limbs(&Fp::MULTIPLICATIVE_GENERATOR), "s": Fp::S,
      "root_of_unity": limbs(&Fp::ROOT_OF_UNITY), "root_of_unity_inv": limbs(&Fp::ROOT_OF_UNITY_INV),
      "delta": limbs(&Fp::DELTA), "zero": limbs(&Fp::ZERO), "one": limbs(&Fp::ONE)}),
      "consts".into(), &mut rep);
  }

  rep.traces = 1;
  rep
}
