//! STAR / ADSS recovery family (C01, C02, C05, C16, C17): replay of the inbox
//! behaviours enumerated by TLC on MC_Star.tla into the real crates (binding A).
use crate::util::*;
use adss::Commune;
use base64::{engine::Engine as _, prelude::BASE64_STANDARD};
use ppoprf::ppoprf::{Client as OprfClient, Server as OprfServer};
use rand::Rng;
use serde_json::{json, Value};
use sta_rs::{
  derive_ske_key, load_bytes, share_recover, AssociatedData, Message, MessageGenerator,
  Share, SingleMeasurement,
};
use strobe_rs::{SecParam, Strobe};

/// A valuation maps the two abstract symbols to byte strings (a prefix code, so the
/// map on abstract strings is injective).
#[derive(Clone, Debug)]
pub struct Valuation {
  pub name: String,
  pub img: [Vec<u8>; 2],
}

pub fn valuations(seed: u64, n: usize) -> Vec<Valuation> {
  let mut rng = rng_from(seed, 77);
  let mut r24 = vec![0x10u8];
  r24.extend((0..23).map(|_| rng.gen::<u8>()));
  let mut r700 = vec![0x20u8];
  r700.extend((0..699).map(|_| rng.gen::<u8>()));
  // long-symbol and short-symbol valuations alternate, so that any prefix of the list holds both
  // (altered collections are only executed under valuations whose symbols are >= 8 bytes)
  let mut all = vec![
    Valuation { name: "block166/167".into(), img: [vec![0x41; 166], vec![0x42; 167]] },
    Valuation { name: "ascii".into(), img: [b"a".to_vec(), b"b".to_vec()] },
    Valuation { name: "random24/700".into(), img: [r24, r700] },
    Valuation { name: "nul/ff".into(), img: [vec![0x00], vec![0xff]] },
    Valuation { name: "elem24/25".into(), img: [vec![0x01; 24], vec![0x02; 25]] },
    Valuation { name: "utf8".into(), img: ["é".as_bytes().to_vec(), "日本".as_bytes().to_vec()] },
    Valuation { name: "block332/15".into(), img: [vec![0x61; 332], vec![0x7a; 15]] },
    Valuation { name: "len4headers".into(), img: [vec![3, 0, 0, 0], vec![4, 0, 0, 0, 9]] },
    Valuation { name: "ws-padded".into(), img: [b" a ".to_vec(), b"\tb\n".to_vec()] },
    Valuation { name: "unicode-ws".into(), img: ["\u{3000}x\u{a0}".as_bytes().to_vec(), "y \u{2003}".as_bytes().to_vec()] },
    // strings that look like numbers (a wrapper that "helpfully" parses them)
    Valuation { name: "numeric".into(), img: [b"7".to_vec(), b"07".to_vec()] },
    Valuation { name: "numeric-edge".into(), img: [b"255".to_vec(), b"+0".to_vec()] },
  ];
  all.truncate(n.max(1).min(all.len()));
  all
}

impl Valuation {
  pub fn s(&self, abs: &Value) -> Vec<u8> {
    // abs = ["S", [sym, ...]]
    let mut out = Vec::new();
    for x in abs[1].as_array().map(|a| a.as_slice()).unwrap_or(&[]) {
      out.extend(&self.img[(x.as_u64().unwrap_or(1) as usize - 1) % 2]);
    }
    out
  }
  pub fn aux(&self, abs: &Value) -> Option<Vec<u8>> {
    // ["none"] | ["some", [sym...]]
    if abs[0].as_str() == Some("none") {
      None
    } else {
      let mut out = Vec::new();
      for x in abs[1].as_array().map(|a| a.as_slice()).unwrap_or(&[]) {
        out.extend(&self.img[(x.as_u64().unwrap_or(1) as usize - 1) % 2]);
      }
      Some(out)
    }
  }
}

pub struct ClientCfg {
  pub m: Vec<u8>,
  pub e: Vec<u8>,
  pub t: u32,
  pub aux: Option<Vec<u8>>,
  pub src: String,
}

/// One materialised client: its report (after a wire round trip) and what it knows.
pub struct RealClient {
  pub cfg: ClientCfg,
  pub share_bytes: Vec<u8>, // adss share encoding
  pub ct: Vec<u8>,
  pub tag: Vec<u8>,
  pub key: Option<[u8; 16]>,
  pub rnd: [u8; 32],
  pub msg_bytes: Vec<u8>,
}

fn oprf_md(e: &[u8]) -> u8 {
  e.first().copied().unwrap_or(0)
}

/// Randomness from a real PPOPRF exchange (blind / eval / unblind / finalize).
pub fn oprf_randomness(server: &OprfServer, m: &[u8], md: u8, verifiable: bool) -> Option<[u8; 32]> {
  let (blinded, r) = OprfClient::blind(m);
  let ev = server.eval(&blinded, md, verifiable).ok()?;
  if verifiable && !OprfClient::verify(&server.get_public_key(), &blinded, &ev, md) {
    return None;
  }
  let unb = OprfClient::unblind(&ev.output, &r);
  let mut out = [0u8; 32];
  OprfClient::finalize(m, md, &unb, &mut out);
  Some(out)
}

pub fn custom_transcript() -> Strobe {
  let mut t = Strobe::new(b"verif custom transcript", SecParam::B128);
  t.ad(b"extra authenticated data", false);
  t
}

pub fn make_client(cfg: ClientCfg, oprf: &OprfServer, rep: &mut Report) -> Option<RealClient> {
  if cfg.src == "adss" || cfg.src == "adssT" {
    let t = if cfg.src == "adssT" { Some(custom_transcript()) } else { None };
    let c = Commune::new(cfg.t, cfg.m.clone(), cfg.e.clone(), t);
    let sh = match guard(|| c.share()) {
      Guard::Done(Ok(s)) => s,
      _ => return None,
    };
    let bytes = sh.to_bytes();
    return Some(RealClient {
      cfg,
      share_bytes: bytes,
      ct: vec![],
      tag: vec![],
      key: None,
      rnd: [0u8; 32],
      msg_bytes: vec![],
    });
  }
  let mg = MessageGenerator::new(SingleMeasurement::new(&cfg.m), cfg.t, &cfg.e);
  let mut rnd = [0u8; 32];
  if cfg.src == "oprf" {
    rnd = oprf_randomness(oprf, &cfg.m, oprf_md(&cfg.e), true)?;
  } else {
    mg.sample_local_randomness(&mut rnd);
  }
  let aux = cfg.aux.as_ref().map(|a| AssociatedData::new(a));
  let msg = match guard(|| Message::generate(&mg, &rnd, aux)) {
    Guard::Done(Ok(m)) => m,
    _ => return None,
  };
  // wire round trip (C01: "after each report has been encoded to bytes and decoded again")
  let bytes = msg.to_bytes();
  rep.evaluations += 1;
  let back = match guard(|| Message::from_bytes(&bytes)) {
    Guard::Done(Some(m)) => m,
    _ => {
      rep.violation("C01", "Message::from_bytes", "roundtrip-rejected",
        "an honestly generated report does not decode".into(), json!({"m": cfg.m, "e": cfg.e, "t": cfg.t}));
      return None;
    }
  };
  if back != msg {
    rep.violation("C01", "Message::from_bytes", "roundtrip-differs",
      "decode(encode(report)) differs from the report".into(), json!({"m": cfg.m, "e": cfg.e, "t": cfg.t}));
  }
  // the client's own key, through the public API, for locally derived randomness
  let key = if cfg.src == "local" {
    match guard(|| mg.share_with_local_randomness()) {
      Guard::Done(Ok(w)) => Some(w.key),
      _ => None,
    }
  } else {
    None
  };
  Some(RealClient {
    share_bytes: back.share.to_bytes(),
    ct: back.ciphertext.to_bytes(),
    tag: back.tag.clone(),
    key,
    rnd,
    msg_bytes: bytes,
    cfg,
  })
}

/// C17: the client's material through the WASM string API, checked against the core library.
pub fn make_client_wasm(cfg: ClientCfg, rep: &mut Report) -> Option<RealClient> {
  let epoch = std::str::from_utf8(&cfg.e).ok()?.to_string();
  let ctx = json!({"m": cfg.m, "e": cfg.e, "t": cfg.t});
  let js = match guard(|| star_wasm::create_share(&cfg.m, cfg.t, &epoch)) {
    Guard::Done(s) => s,
    Guard::Panic(_) => {
      rep.violation("C17", "star_wasm::create_share", "panic", "create_share panicked".into(), ctx);
      return None;
    }
  };
  rep.evaluations += 1;
  let v: Value = match serde_json::from_str(&js) {
    Ok(v) => v,
    Err(_) => {
      rep.violation("C17", "star_wasm::create_share", "malformed-json", format!("not JSON: {js:.80}"), ctx);
      return None;
    }
  };
  let field = |k: &str| -> Option<Vec<u8>> { BASE64_STANDARD.decode(v[k].as_str()?).ok() };
  let (key, share, tag) = match (field("key"), field("share"), field("tag")) {
    (Some(k), Some(s), Some(t)) => (k, s, t),
    _ => {
      rep.violation("C17", "star_wasm::create_share", "bad-fields", "key/share/tag missing or not base64".into(), ctx);
      return None;
    }
  };
  if key.len() != 16 || tag.len() != 32 || Share::from_bytes(&share).is_none() {
    rep.violation("C17", "star_wasm::create_share", "bad-field-shape",
      format!("key {} bytes, tag {} bytes, share decodable={}", key.len(), tag.len(), Share::from_bytes(&share).is_some()), ctx);
    return None;
  }
  // equal to what the core library derives for the same (measurement, threshold, epoch)
  let mg = MessageGenerator::new(SingleMeasurement::new(&cfg.m), cfg.t, &cfg.e);
  if let Guard::Done(Ok(w)) = guard(|| mg.share_with_local_randomness()) {
    if w.key.to_vec() != key || w.tag.to_vec() != tag {
      rep.violation("C17", "star_wasm::create_share", "differs-from-core",
        "key or tag differs from the core library's for the same inputs".into(), ctx.clone());
    }
    // a share from the core library and the WASM share combine (same sharing) when t = 2
    if cfg.t == 2 {
      let both = vec![Share::from_bytes(&share).unwrap(), w.share.clone()];
      rep.evaluations += 1;
      if !matches!(guard(|| share_recover(&both).is_ok()), Guard::Done(true)) {
        rep.violation("C17", "star_wasm::create_share", "share-not-combinable",
          "the WASM share does not combine with a core-library share of the same measurement".into(), ctx.clone());
      }
    }
  }
  let mut k16 = [0u8; 16];
  k16.copy_from_slice(&key);
  let mut rnd = [0u8; 32];
  mg.sample_local_randomness(&mut rnd);
  Some(RealClient { cfg, share_bytes: share, ct: vec![], tag, key: Some(k16), rnd, msg_bytes: vec![] })
}

// --- adss share layout: thr(4) | len(4) S | len(4) C | len(4) D | J(64) ---
pub struct Layout {
  pub s: (usize, usize),
  pub c: (usize, usize),
  pub d: (usize, usize),
  pub j: (usize, usize),
}
pub fn layout(b: &[u8]) -> Option<Layout> {
  let rd = |o: usize| -> Option<usize> {
    if o + 4 > b.len() {
      return None;
    }
    Some(u32::from_le_bytes([b[o], b[o + 1], b[o + 2], b[o + 3]]) as usize)
  };
  let ls = rd(4)?;
  let s = (8, 8 + ls);
  let lc = rd(s.1)?;
  let c = (s.1 + 4, s.1 + 4 + lc);
  let ld = rd(c.1)?;
  let d = (c.1 + 4, c.1 + 4 + ld);
  let j = (d.1, d.1 + 64);
  if j.1 != b.len() {
    return None;
  }
  Some(Layout { s, c, d, j })
}

/// Realise a model fault on an encoded share. None: the fault has no effect on this share
/// (e.g. empty C) — the behaviour is then skipped.
pub fn apply_fault(bytes: &[u8], f: &str, other: Option<&[u8]>, rng: &mut impl Rng) -> Option<Vec<u8>> {
  let mut b = bytes.to_vec();
  let l = layout(bytes)?;
  let thr = u32::from_le_bytes([b[0], b[1], b[2], b[3]]);
  match f {
    "none" => {}
    "thr-" => {
      if thr == 0 {
        return None;
      }
      b[..4].copy_from_slice(&(thr - 1).to_le_bytes());
    }
    "thr0" => {
      if thr == 0 {
        return None;
      }
      b[..4].copy_from_slice(&0u32.to_le_bytes());
    }
    "thr+" => b[..4].copy_from_slice(&(thr + 1).to_le_bytes()),
    "xdup" => {
      let o = other?;
      let lo = layout(o)?;
      if o[lo.s.0..lo.s.0 + 24] == b[l.s.0..l.s.0 + 24] {
        return None;
      }
      let x = o[lo.s.0..lo.s.0 + 24].to_vec();
      b[l.s.0..l.s.0 + 24].copy_from_slice(&x);
    }
    "xnew" => {
      for i in 0..16 {
        b[l.s.0 + i] = rng.gen();
      }
      for i in 16..24 {
        b[l.s.0 + i] = 0;
      }
    }
    "y" => {
      if l.s.1 - l.s.0 < 48 {
        return None;
      }
      b[l.s.0 + 24 + rng.gen_range(0..16)] ^= 1 << rng.gen_range(0..8);
    }
    "dropy" => {
      if l.s.1 - l.s.0 < 48 {
        return None;
      }
      let mut nb = b[..4].to_vec();
      nb.extend(24u32.to_le_bytes());
      nb.extend(&b[l.s.0..l.s.0 + 24]);
      nb.extend(&b[l.s.1..]);
      b = nb;
    }
    "C" | "D" | "J" => {
      let (a, z) = match f {
        "C" => l.c,
        "D" => l.d,
        _ => l.j,
      };
      if z == a {
        return None;
      }
      b[a + rng.gen_range(0..(z - a))] ^= 1 << rng.gen_range(0..8);
    }
    _ => return None,
  }
  Some(b)
}

fn parse_payload(p: &[u8]) -> Option<(Vec<u8>, Option<Vec<u8>>)> {
  let m = load_bytes(p)?;
  let rest = &p[4 + m.len()..];
  if rest.is_empty() {
    return Some((m.to_vec(), None));
  }
  let a = load_bytes(rest)?;
  if rest.len() != 4 + a.len() {
    return None;
  }
  Some((m.to_vec(), Some(a.to_vec())))
}

struct Cfg {
  clients: Vec<Value>,
  other: Vec<usize>,
  group: Vec<usize>,
}

fn load_cfg(path: &str) -> Cfg {
  let v: Value = serde_json::from_str(&read_lines(path)[0]).expect("cfg");
  Cfg {
    clients: v["clients"].as_array().unwrap().clone(),
    other: v["other"].as_array().unwrap().iter().map(|x| x.as_u64().unwrap() as usize).collect(),
    group: v["group"].as_array().unwrap().iter().map(|x| x.as_u64().unwrap() as usize).collect(),
  }
}

/// `vh recover-replay --cfg F --lines F --prop C01|C02|C05|C16|C17 --seed S --vals N`
pub fn recover_replay(a: &Args) -> Report {
  let prop = a.str("prop", "C01");
  let mut rep = Report::new(&format!("recover-replay-{prop}"));
  let cfg = load_cfg(a.get("cfg").expect("--cfg"));
  let lines: Vec<Value> = read_lines(a.get("lines").expect("--lines"))
    .iter()
    .map(|l| serde_json::from_str(l).expect("line"))
    .collect();
  let seed = a.u64("seed", 1);
  let vals = valuations(seed, a.u64("vals", 3) as usize);
  let stride = a.u64("stride", 1) as usize;
  for (vi, val) in vals.iter().enumerate() {
    let mut rng = rng_from(seed, 900 + vi as u64);
    let oprf = OprfServer::new((0..=255u8).step_by(1).take(256).collect()).expect("oprf server");
    // materialise the clients
    let mut clients: Vec<Option<RealClient>> = Vec::new();
    for c in &cfg.clients {
      let cc = ClientCfg {
        m: val.s(&c["m"]),
        e: val.s(&c["e"]),
        t: c["t"].as_u64().unwrap() as u32,
        aux: val.aux(&c["aux"]),
        src: c["src"].as_str().unwrap().to_string(),
      };
      if prop == "C17" {
        if cc.src != "local" {
          clients.push(None);
          continue;
        }
        clients.push(make_client_wasm(cc, &mut rep));
      } else {
        clients.push(make_client(cc, &oprf, &mut rep));
      }
    }
    // C17: clients that are not expressible in the string API (non-UTF-8 epoch under this valuation,
    // randomness-server source) are left out; behaviours that mention them are skipped below
    let absent: Vec<bool> = clients.iter().map(|c| c.is_none()).collect();
    if prop == "C17" {
      if absent.iter().all(|a| *a) {
        rep.count("valuations_skipped_not_utf8", 1);
        continue;
      }
      for (i, c) in clients.iter_mut().enumerate() {
        if c.is_none() {
          // placeholder, never used (lines mentioning it are skipped)
          let cc = ClientCfg { m: vec![i as u8], e: vec![], t: 1, aux: None, src: "local".into() };
          *c = make_client(cc, &oprf, &mut rep);
        }
      }
    }
    if clients.iter().any(|c| c.is_none()) {
      rep.violation(&prop, "Message::generate", "generation-failed",
        format!("a client of the scenario could not produce a report (valuation {})", val.name), json!({"valuation": val.name}));
      continue;
    }
    let clients: Vec<RealClient> = clients.into_iter().map(|c| c.unwrap()).collect();
    if prop == "C16" {
      c16_determinism(&cfg, &clients, &oprf, val, &mut rep);
    }
    if prop == "C17" && vi == 0 {
      // thresholds at integer-width boundaries: the WASM call agrees with the core library
      // epoch strings a wrapper might be tempted to interpret: the WASM call agrees with the core
      // library keyed with the string's UTF-8 bytes, whatever the string looks like
      for e in ["0", "7", "42", "255", "256", "07", "+7", "-1", "1e3", "0x10", " 7", "７", "true", "null", "2026-09-27T00:00:00Z", "\u{7}", "%37"] {
        let _ = make_client_wasm(ClientCfg { m: b"wasm epoch sweep".to_vec(), e: e.as_bytes().to_vec(), t: 2, aux: None, src: "local".into() }, &mut rep);
        rep.nontrivial(format!("wasm-epoch:{e}"));
      }
      for t in [0u32, 1, 2, 255, 256, 257, 65535, 65536, 65537] {
        for (m, e) in [(b"wasm threshold sweep".to_vec(), b"e".to_vec()), (vec![], vec![]), (vec![0u8, 0xff, 0x80, 0x00], "épöque".as_bytes().to_vec())] {
          let _ = make_client_wasm(ClientCfg { m, e, t, aux: None, src: "local".into() }, &mut rep);
          rep.nontrivial(format!("wasm-threshold:{t}"));
        }
      }
    }
    for (li, line) in lines.iter().enumerate() {
      if li % stride != (vi % stride) || rep.too_many() {
        continue;
      }
      let ib = line["ib"].as_array().unwrap();
      if prop == "C17" && ib.iter().any(|e| absent[e[0].as_u64().unwrap() as usize - 1]) {
        continue;
      }
      // `ok`/`grp`: the outcome of the code-shaped reference model; `canok`/`mustok`/`first`: the
      // contract the properties impose on ANY recover (Adss.tla: CanRecover / MustRecover) — the
      // implementation is judged against the contract, agreement with the reference is counted
      let ref_ok = line["ok"].as_u64().unwrap() == 1;
      let can_ok = line["canok"].as_u64().unwrap() == 1;
      let want_ok = line["mustok"].as_u64().unwrap() == 1;
      let grp = line["first"].as_u64().unwrap() as usize;
      let faulty = ib.iter().any(|e| e[1].as_str().unwrap() != "none");
      let thr_fault_only = ib.iter().all(|e| {
        let f = e[1].as_str().unwrap();
        f == "none" || f.starts_with("thr")
      });
      // which behaviours belong to which property
      let relevant = match prop.as_str() {
        "C01" => !faulty && (want_ok || ref_ok),
        "C02" => thr_fault_only,
        "C05" => true,
        "C16" => true,
        "C17" => !faulty,
        _ => true,
      };
      if !relevant {
        continue;
      }
      // ideal-cipher predictions need plaintexts long enough that a wrong key cannot
      // reproduce them by chance (2^-64): altered collections skip the 1-byte valuations, and so do
      // collections of DIRECT ADSS sharings that must be refused (their message and coins are the
      // valuation's strings: with one byte each, a wrong key "authenticates" with probability 2^-16;
      // STAR clients share 32-byte derived values and are not affected)
      let short = val.img.iter().any(|i| i.len() < 8);
      let direct_adss = ib.iter().any(|e| clients[e[0].as_u64().unwrap() as usize - 1].cfg.src.starts_with("adss"));
      if short && (faulty || (direct_adss && !can_ok)) {
        rep.count("skipped_short_plaintext", 1);
        continue;
      }
      // build the share list
      let mut shares: Vec<Vec<u8>> = Vec::new();
      let mut skip = false;
      for e in ib {
        let c = e[0].as_u64().unwrap() as usize;
        let f = e[1].as_str().unwrap();
        let other = cfg.other[c - 1];
        let ob = if other != c { Some(clients[other - 1].share_bytes.as_slice()) } else { None };
        match apply_fault(&clients[c - 1].share_bytes, f, ob, &mut rng) {
          Some(b) => shares.push(b),
          None => {
            skip = true;
            break;
          }
        }
      }
      if skip {
        rep.count("skipped_ineffective_fault", 1);
        continue;
      }
      rep.evaluations += 1;
      let replay = json!({"valuation": val.name, "inbox": ib, "must_recover": want_ok, "may_recover": can_ok,
        "reference_model_recovers": ref_ok, "first_share_group": grp});
      if prop == "C17" {
        let reach: Vec<usize> = line["reach"].as_array().map(|a| a.iter().filter_map(|x| x.as_u64().map(|v| v as usize)).collect()).unwrap_or_default();
        wasm_line(&cfg, &clients, ib, &shares, want_ok, can_ok, ref_ok, grp, &reach, &replay, &mut rep);
        continue;
      }
      // decode (an undecodable altered share counts as rejected)
      let mut decoded: Vec<Share> = Vec::new();
      let mut undecodable = false;
      for b in &shares {
        match guard(|| Share::from_bytes(b)) {
          Guard::Done(Some(s)) => decoded.push(s),
          _ => {
            undecodable = true;
            break;
          }
        }
      }
      if undecodable {
        rep.count("undecodable_after_fault", 1);
        if !faulty {
          rep.violation(&prop, "Share::from_bytes", "honest-share-rejected",
            "an honest share does not decode".into(), replay.clone());
        }
        continue;
      }
      let r = guard(|| share_recover(&decoded).map(|c| c.get_message()).map_err(|e| e.to_string()));
      let got: Option<Vec<u8>> = match &r {
        Guard::Done(Ok(m)) => Some(m.clone()),
        _ => None,
      };
      if faulty || !want_ok {
        rep.nontrivial(format!("{}:{}", vi, line["ib"]));
      }
      rep.count(if got.is_some() == ref_ok { "outcomes_equal_to_reference_model" } else { "outcomes_differing_from_reference_model_within_contract" }, 1);
      match (&got, can_ok) {
        (None, _) if want_ok => {
          // success is demanded only of honest collections of one sharing (C01 / C16)
          if prop == "C01" || prop == "C16" {
            rep.violation(&prop, "share_recover", "recovery-failed",
              format!("t distinct honest shares of client {grp}'s sharing must recover, implementation returned {}",
                if r.is_panic() { "a panic" } else { "an error" }), replay.clone());
          }
        }
        (Some(_), false) => {
          let cls = if faulty { "accepted-altered-collection" } else { "recovered-below-threshold" };
          rep.violation(&prop, "share_recover", cls,
            "the collection must be refused (first share altered / foreign transcript / threshold 0, or its sharing is below threshold), implementation returned a message".into(), replay.clone());
        }
        (Some(msg), true) => {
          // identity of the recovered message: it must open the reports of the predicted group
          let g = &clients[grp - 1];
          if g.cfg.src == "adss" || g.cfg.src == "adssT" {
            if *msg != g.cfg.m {
              rep.violation(&prop, "share_recover", "wrong-message",
                "recovered message differs from the shared message".into(), replay.clone());
            } else if prop == "C16" && li % 7 == 0 {
              c16_reshare(&decoded, &clients, ib, &replay, &mut rep);
            }
          } else {
            let mut ok_all = true;
            for (ci, c) in clients.iter().enumerate() {
              if cfg.group[ci] != cfg.group[grp - 1] {
                continue;
              }
              let mut key = vec![0u8; 16];
              derive_ske_key(msg, &c.cfg.e, &mut key);
              let ct = sta_rs::Ciphertext::from_bytes(&c.ct);
              let pt = match guard(|| ct.decrypt(&key, "star_encrypt")) {
                Guard::Done(p) => p,
                _ => vec![],
              };
              rep.evaluations += 1;
              let parsed = parse_payload(&pt);
              let good = match &parsed {
                Some((m, aux)) => *m == c.cfg.m && *aux == c.cfg.aux,
                None => false,
              };
              if !good {
                ok_all = false;
                rep.violation(&prop, "Ciphertext::decrypt", "report-does-not-open",
                  format!("the recovered message does not open client {}'s report to its measurement and associated data", ci + 1),
                  replay.clone());
              }
              if let Some(k) = c.key {
                if k.to_vec() != key {
                  rep.violation(&prop, "derive_ske_key", "key-mismatch",
                    "aggregator-side key differs from the client's key".into(), replay.clone());
                }
              }
            }
            if ok_all {
              rep.nontrivial(format!("{}:{}", vi, line["ib"]));
            }
          }
        }
        (None, _) => {}
      }
      if rep.samples.len() < 4 && (li % 97 == 3) {
        rep.sample(json!({"valuation": val.name, "inbox": ib, "predicted_ok": want_ok, "observed_ok": got.is_some()}));
      }
    }
    rep.traces += 1;
  }
  rep
}

/// C16: everything in a share except the point is a function of (t, M, R, T).
fn c16_determinism(cfg: &Cfg, clients: &[RealClient], oprf: &OprfServer, val: &Valuation, rep: &mut Report) {
  // the authenticated transcript is an input like threshold, message and coins: a sharing under a
  // custom transcript dealt IMMEDIATELY after (and before) the default-transcript sharing of the
  // same (t, M, R) on this thread must still differ from it in the tag and be refused by recover()
  for c in clients.iter().filter(|c| c.cfg.src == "adss" && c.cfg.t >= 1) {
    let (t, m, r) = (c.cfg.t, c.cfg.m.clone(), c.cfg.e.clone());
    let deal = |custom: bool| -> Option<Vec<u8>> {
      let tr = if custom { Some(custom_transcript()) } else { None };
      guard(|| Commune::new(t, m.clone(), r.clone(), tr).share().ok().map(|s| s.to_bytes())).ok().flatten()
    };
    for order in [[false, true, false, true], [true, false, true, false]] {
      let dealt: Vec<(bool, Vec<u8>)> = order.iter().filter_map(|cu| deal(*cu).map(|b| (*cu, b))).collect();
      rep.evaluations += dealt.len() as u64;
      let tag_of = |b: &Vec<u8>| layout(b).map(|l| b[l.j.0..l.j.1].to_vec());
      let dflt: Vec<&Vec<u8>> = dealt.iter().filter(|(cu, _)| !*cu).map(|(_, b)| b).collect();
      let cust: Vec<&Vec<u8>> = dealt.iter().filter(|(cu, _)| *cu).map(|(_, b)| b).collect();
      if let (Some(d), Some(cu)) = (dflt.first(), cust.first()) {
        if tag_of(d) == tag_of(cu) {
          rep.violation("C16", "Commune::share", "transcript-not-bound:same-tag",
            "a sharing under a custom transcript carries the tag of the default-transcript sharing dealt just before / after it".into(),
            json!({"valuation": val.name, "threshold": t, "order": order}));
        }
      }
      // t copies' worth of custom-transcript shares (two dealt; enough for t <= 2) never recover
      if cust.len() >= t as usize {
        let shs: Vec<Share> = cust.iter().filter_map(|b| Share::from_bytes(b)).collect();
        if matches!(guard(|| share_recover(&shs[..t as usize]).is_ok()), Guard::Done(true)) {
          rep.violation("C16", "adss::recover", "transcript-not-bound:custom-shares-recover",
            "shares dealt under a custom transcript were accepted by recover()".into(),
            json!({"valuation": val.name, "threshold": t, "order": order}));
        }
      }
      rep.nontrivial(format!("transcript-history:{}:{t}:{order:?}", val.name));
    }
  }
  for (ci, c) in clients.iter().enumerate() {
    let again = make_client(
      ClientCfg { m: c.cfg.m.clone(), e: c.cfg.e.clone(), t: c.cfg.t, aux: c.cfg.aux.clone(), src: c.cfg.src.clone() },
      oprf,
      rep,
    );
    let again = match again {
      Some(a) => a,
      None => continue,
    };
    rep.evaluations += 1;
    let (l1, l2) = match (layout(&c.share_bytes), layout(&again.share_bytes)) {
      (Some(a), Some(b)) => (a, b),
      _ => continue,
    };
    let a = &c.share_bytes;
    let b = &again.share_bytes;
    let same_outside = a[..4] == b[..4] && a[l1.s.1..] == b[l2.s.1..];
    let same_point = a[l1.s.0..l1.s.0 + 24] == b[l2.s.0..l2.s.0 + 24];
    if !same_outside {
      rep.violation("C16", "Commune::share", "non-deterministic-fields",
        format!("two invocations of the same sharing differ outside the share point (client {}, valuation {})", ci + 1, val.name),
        json!({"client": ci + 1, "valuation": val.name}));
    }
    if same_point {
      rep.violation("C16", "Commune::share", "repeated-point",
        "two invocations produced the same evaluation point".into(), json!({"client": ci + 1, "valuation": val.name}));
    }
    // same-group clients: identical outside S as well
    for (dj, d) in clients.iter().enumerate() {
      if dj <= ci || cfg.group[dj] != cfg.group[ci] {
        continue;
      }
      if let Some(l3) = layout(&d.share_bytes) {
        if a[..4] != d.share_bytes[..4] || a[l1.s.1..] != d.share_bytes[l3.s.1..] {
          rep.violation("C16", "Commune::share", "non-deterministic-fields",
            format!("clients {} and {} of one sharing differ outside the share point", ci + 1, dj + 1),
            json!({"client": ci + 1, "other": dj + 1, "valuation": val.name}));
        }
      }
    }
    rep.nontrivial(format!("det:{}:{}", val.name, ci));
  }
}

/// C16: the recovered commune is the original sharing — its new shares combine with old ones.
fn c16_reshare(decoded: &[Share], clients: &[RealClient], ib: &[Value], replay: &Value, rep: &mut Report) {
  let commune = match guard(|| share_recover(decoded)) {
    Guard::Done(Ok(c)) => c,
    _ => return,
  };
  let first = ib[0][0].as_u64().unwrap() as usize;
  let t = clients[first - 1].cfg.t as usize;
  if t < 2 {
    return;
  }
  // t-1 distinct original shares + one new share of the recovered commune
  let mut sel: Vec<Share> = Vec::new();
  let mut seen: Vec<Vec<u8>> = Vec::new();
  for s in decoded {
    let b = s.to_bytes();
    if !seen.contains(&b) && sel.len() < t - 1 {
      seen.push(b);
      sel.push(s.clone());
    }
  }
  if sel.len() < t - 1 {
    return;
  }
  let fresh = match guard(|| commune.clone().share()) {
    Guard::Done(Ok(s)) => s,
    _ => {
      rep.violation("C16", "Commune::share", "reshare-failed", "recovered commune cannot share".into(), replay.clone());
      return;
    }
  };
  let fresh = match Share::from_bytes(&fresh.to_bytes()) {
    Some(s) => s,
    None => return,
  };
  // old shares first (they supply C/D/J), then the new one; and the reverse order
  let mut a = sel.clone();
  a.push(fresh.clone());
  let mut b = vec![fresh];
  b.extend(sel);
  for (name, s) in [("old-first", a), ("new-first", b)] {
    rep.evaluations += 1;
    match guard(|| share_recover(&s).map(|c| c.get_message()).map_err(|e| e.to_string())) {
      Guard::Done(Ok(m)) if m == clients[first - 1].cfg.m => {
        rep.nontrivial(format!("reshare:{name}:{}", Value::Array(ib.to_vec())));
      }
      _ => rep.violation("C16", "adss::recover", &format!("reshare-does-not-combine:{name}"),
        "a share produced from the recovered sharing does not combine with the original shares".into(),
        replay.clone()),
    }
  }
}

/// C17: the same behaviour through the WASM string API.
#[allow(clippy::too_many_arguments)]
fn wasm_line(
  cfg: &Cfg,
  clients: &[RealClient],
  ib: &[Value],
  shares: &[Vec<u8>],
  want_ok: bool,
  can_ok: bool,
  ref_ok: bool,
  grp: usize,
  reach: &[usize],
  replay: &Value,
  rep: &mut Report,
) {
  let _ = cfg;
  let _ = can_ok;
  let joined = shares.iter().map(|b| BASE64_STANDARD.encode(b)).collect::<Vec<_>>().join("\n");
  let first = ib[0][0].as_u64().unwrap() as usize;
  let gi = if grp > 0 { grp } else { first };
  let epoch_bytes = &clients[gi - 1].cfg.e;
  let epoch = match std::str::from_utf8(epoch_bytes) {
    Ok(s) => s.to_string(),
    Err(_) => return, // the string API only takes UTF-8 epochs
  };
  let r = guard(|| star_wasm::group_shares(&joined, &epoch));
  let got = match &r {
    Guard::Done(Some(k)) => Some(k.clone()),
    _ => None,
  };
  let client_key = clients[gi - 1].key.map(|k| BASE64_STANDARD.encode(k));
  rep.count(if got.is_some() == ref_ok { "outcomes_equal_to_reference_model" } else { "outcomes_differing_from_reference_model_within_contract" }, 1);
  // `reach`: the sharings that reach their own threshold in this collection.  The call must return
  // the clients' key when the whole collection is one such sharing; it must return nothing when no
  // sharing reaches its threshold; for a mixture it may return nothing or the key of a sharing that
  // does reach it (a wrapper may try the sharings one after the other).
  let key_of = |g: usize| clients[g - 1].key.map(|k| BASE64_STANDARD.encode(k));
  let same_epoch: Vec<usize> = reach.iter().cloned().filter(|g| clients[g - 1].cfg.e == *epoch_bytes).collect();
  let other_epoch_groups: Vec<usize> = reach.iter().cloned().filter(|g| clients[g - 1].cfg.e != *epoch_bytes).collect();
  match got.clone() {
    None if want_ok => rep.violation("C17", "star_wasm::group_shares", "nothing-returned",
      format!("threshold reached but the grouping call returned nothing{}", if r.is_panic() { " (panic)" } else { "" }),
      replay.clone()),
    Some(_) if reach.is_empty() => rep.violation("C17", "star_wasm::group_shares", "key-below-threshold",
      "no measurement reaches its threshold but the grouping call returned a key".into(), replay.clone()),
    Some(k) => {
      if same_epoch.iter().any(|g| key_of(*g) == Some(k.clone())) {
        rep.nontrivial(format!("wasm:{}", Value::Array(ib.to_vec())));
      } else if other_epoch_groups.iter().any(|g| key_of(*g) == Some(k.clone())) {
        rep.violation("C17", "star_wasm::group_shares", "epoch-ignored",
          "the grouping call returned the key of clients of ANOTHER epoch than the one it was given".into(), replay.clone());
      } else if other_epoch_groups.is_empty() {
        rep.violation("C17", "star_wasm::group_shares", "wrong-key",
          "the grouping call returned a key different from the contributing clients' key".into(), replay.clone());
      } else {
        rep.count("key_derived_from_a_group_of_another_epoch_not_checkable", 1);
      }
      // a different epoch never yields the clients' key — in particular not one that a lenient
      // reading would identify with the clients' epoch (padding, sign, leading zero, case, width)
      if Some(k.clone()) == client_key {
        for other_epoch in [format!("{epoch}x"), format!("0{epoch}"), format!("+{epoch}"), format!("{epoch} "), format!(" {epoch}"),
                            format!("{epoch}\0"), epoch.to_uppercase() + "\u{200b}"] {
          rep.evaluations += 1;
          if let Guard::Done(Some(k2)) = guard(|| star_wasm::group_shares(&joined, &other_epoch)) {
            if Some(k2) == client_key {
              rep.violation("C17", "star_wasm::group_shares", "epoch-ignored",
                format!("grouping under the different epoch {other_epoch:?} returned the clients' key"), replay.clone());
              break;
            }
          }
        }
      }
    }
    None => {
      rep.nontrivial(format!("wasm-none:{}", Value::Array(ib.to_vec())));
    }
  }
}
