//! Derivation family (C04): the triples enumerated by TLC (MC_Derive) are executed under
//! several valuations; the equality pattern of randomness / tags / keys must be exactly the
//! equality pattern of the model's classes.
use crate::star::{layout, valuations};
use crate::util::*;
use serde_json::{json, Value};
use sta_rs::{share_recover, AssociatedData, Message, MessageGenerator, Share, SingleMeasurement};
use std::collections::HashMap;

const THR_MAPS: [[u32; 3]; 6] = [
  [0, 1, 2],
  [1, 2, 3],
  [2, 3, 258],
  [256, 1, 65536],
  [65538, 2, 2147483650],
  [4, 5, 6],
];

/// `vh derive-replay --lines F --seed S --vals N --clients K`
pub fn replay(a: &Args) -> Report {
  let mut rep = Report::new("derive-replay");
  let lines: Vec<Value> = read_lines(a.get("lines").expect("--lines")).iter().map(|l| serde_json::from_str(l).unwrap()).collect();
  let seed = a.u64("seed", 1);
  let k = a.u64("clients", 3) as usize;
  let vals = valuations(seed, a.u64("vals", 3) as usize);
  let nmaps = a.u64("thrmaps", 3) as usize;
  for (vi, val) in vals.iter().enumerate() {
    for (ti, tm) in THR_MAPS.iter().take(nmaps).enumerate() {
      let big = tm.iter().any(|t| *t > 300);
      // bytes -> (class, triple index) per sort
      let mut by_rnd: HashMap<Vec<u8>, usize> = HashMap::new();
      let mut by_tag: HashMap<Vec<u8>, usize> = HashMap::new();
      let mut by_key: HashMap<Vec<u8>, usize> = HashMap::new();
      let mut class_rnd: HashMap<usize, Vec<u8>> = HashMap::new();
      let mut points: HashMap<Vec<u8>, usize> = HashMap::new();
      for (li, l) in lines.iter().enumerate() {
        let sym = |v: &Value| -> Vec<u8> {
          let mut out = Vec::new();
          for x in v.as_array().unwrap() {
            out.extend(&val.img[(x.as_u64().unwrap() as usize - 1) % 2]);
          }
          out
        };
        let m = sym(&l["m"]);
        let e = sym(&l["e"]);
        let t = tm[(l["t"].as_u64().unwrap() as usize - 1) % 3];
        let cls = l["cls"].as_u64().unwrap() as usize;
        let ctx = json!({"valuation": val.name, "threshold_map": tm, "m": l["m"], "e": l["e"], "t": l["t"]});
        let mg = MessageGenerator::new(SingleMeasurement::new(&m), t, &e);
        let mut rnd = [0u8; 32];
        mg.sample_local_randomness(&mut rnd);
        rep.evaluations += 1;
        // same class <=> same bytes
        if let Some(old) = class_rnd.get(&cls) {
          if *old != rnd.to_vec() {
            rep.violation("C04", "sample_local_randomness", "same-triple-different-randomness",
              "two clients with equal (measurement, epoch, threshold) derived different randomness".into(), ctx.clone());
          }
        } else {
          class_rnd.insert(cls, rnd.to_vec());
        }
        if let Some(other) = by_rnd.get(&rnd.to_vec()) {
          if *other != cls {
            rep.violation("C04", "sample_local_randomness", "different-triples-same-randomness",
              format!("triples of classes {other} and {cls} derived the same randomness"),
              json!({"a": ctx, "b_line": lines[*other - 1]}));
          }
        }
        by_rnd.insert(rnd.to_vec(), cls);
        rep.nontrivial(format!("{vi}:{ti}:{li}"));
        if big {
          continue;
        }
        // k independent clients with differing associated data
        let mut shares: Vec<Share> = Vec::new();
        for ci in 0..k {
          let aux = match ci % 3 {
            0 => None,
            1 => Some(AssociatedData::new(&[])),
            _ => Some(AssociatedData::new(&vec![ci as u8; 3 + li % 5])),
          };
          let msg = match guard(|| Message::generate(&mg, &rnd, aux)) {
            Guard::Done(Ok(m)) => m,
            _ => {
              rep.violation("C04", "Message::generate", "generation-failed", "client could not report".into(), ctx.clone());
              continue;
            }
          };
          rep.evaluations += 1;
          let w = match guard(|| mg.share_with_local_randomness()) {
            Guard::Done(Ok(w)) => w,
            _ => continue,
          };
          for (sort, bytes, map) in [("tag", msg.tag.clone(), &mut by_tag), ("key", w.key.to_vec(), &mut by_key)] {
            if let Some(other) = map.get(&bytes) {
              if *other != cls {
                rep.violation("C04", "Message::generate", &format!("different-triples-same-{sort}"),
                  format!("triples of classes {other} and {cls} share a {sort}"), ctx.clone());
              }
            }
            map.insert(bytes, cls);
          }
          if msg.tag != w.tag.to_vec() {
            rep.violation("C04", "share_with_local_randomness", "tag-differs-between-apis",
              "Message::generate and share_with_local_randomness disagree on the tag".into(), ctx.clone());
          }
          // every share has its own evaluation point
          for sh in [&msg.share, &w.share] {
            let b = sh.to_bytes();
            if let Some(l) = layout(&b) {
              let x = b[l.s.0..l.s.0 + 24].to_vec();
              if points.insert(x, cls).is_some() {
                rep.violation("C04", "Commune::share", "repeated-share-point",
                  "two shares carry the same evaluation point".into(), ctx.clone());
              }
            }
            shares.push(sh.clone());
          }
        }
        // equal tags/keys within the class are implied by map lookups of equal classes; check explicitly
        // shares of different clients combine
        if t as usize <= shares.len() && t >= 1 && t <= 6 {
          rep.evaluations += 1;
          let sel: Vec<Share> = shares.iter().rev().take(t as usize).cloned().collect();
          if !matches!(guard(|| share_recover(&sel).is_ok()), Guard::Done(true)) {
            rep.violation("C04", "share_recover", "shares-do-not-combine",
              "shares of independent clients of one triple do not combine".into(), ctx.clone());
          }
        }
      }
      // per-class equality of tags and keys (independent of associated data)
      let mut tag_of: HashMap<usize, Vec<u8>> = HashMap::new();
      for (b, c) in &by_tag {
        if let Some(prev) = tag_of.insert(*c, b.clone()) {
          if prev != *b {
            rep.violation("C04", "Message::generate", "same-triple-different-tag",
              format!("clients of class {c} produced different tags"), json!({"valuation": val.name, "threshold_map": tm, "class": c}));
          }
        }
      }
      let mut key_of: HashMap<usize, Vec<u8>> = HashMap::new();
      for (b, c) in &by_key {
        if let Some(prev) = key_of.insert(*c, b.clone()) {
          if prev != *b {
            rep.violation("C04", "share_with_local_randomness", "same-triple-different-key",
              format!("clients of class {c} produced different keys"), json!({"valuation": val.name, "threshold_map": tm, "class": c}));
          }
        }
      }
      rep.traces += 1;
      rep.sample(json!({"valuation": val.name, "threshold_map": tm, "triples": lines.len(), "clients_per_triple": if big {0} else {k}}));
    }
    // the threshold axis on its own: every pair of thresholds — 0, 1, the small ones, every power
    // of two and its neighbours (pairs differing in one bit), the integer-width boundaries — gives
    // different randomness; tags and keys too where dealing a polynomial of that degree is feasible
    let (m, e) = (val.img[0].clone(), val.img[1].clone());
    let mut thrs: Vec<u32> = (0..=20).collect();
    for k in 0..32u32 {
      thrs.extend([1u32 << k, (1u32 << k).wrapping_add(1), (1u32 << k).wrapping_sub(1), (1u32 << k) | 1, (1u32 << k) | 2]);
    }
    thrs.extend([u32::MAX, u32::MAX - 1, 255, 257, 65535, 65537, 0x0100_0001, 0x0001_0100]);
    thrs.sort();
    thrs.dedup();
    let mut seen_rnd: HashMap<Vec<u8>, u32> = HashMap::new();
    let mut seen_tag: HashMap<Vec<u8>, u32> = HashMap::new();
    let mut seen_key: HashMap<Vec<u8>, u32> = HashMap::new();
    for t in thrs {
      let mg = MessageGenerator::new(SingleMeasurement::new(&m), t, &e);
      let mut rnd = [0u8; 32];
      if !matches!(guard(|| mg.sample_local_randomness(&mut rnd)), Guard::Done(())) {
        continue;
      }
      rep.evaluations += 1;
      let ctx = json!({"valuation": val.name, "threshold": t});
      if let Some(o) = seen_rnd.insert(rnd.to_vec(), t) {
        rep.violation("C04", "sample_local_randomness", "different-thresholds-same-randomness",
          format!("thresholds {o} and {t} derive the same randomness"), ctx.clone());
      }
      if t <= 40 {
        if let Guard::Done(Ok(w)) = guard(|| mg.share_with_local_randomness()) {
          if let Some(o) = seen_tag.insert(w.tag.to_vec(), t) {
            rep.violation("C04", "share_with_local_randomness", "different-thresholds-same-tag",
              format!("thresholds {o} and {t} derive the same tag"), ctx.clone());
          }
          if let Some(o) = seen_key.insert(w.key.to_vec(), t) {
            rep.violation("C04", "share_with_local_randomness", "different-thresholds-same-key",
              format!("thresholds {o} and {t} derive the same key"), ctx.clone());
          }
        }
      }
      rep.nontrivial(format!("thr-axis:{vi}:{t}"));
    }
  }
  rep
}

/// `vh thread-clients --seed S` (C04): independent clients are independent also when each runs on
/// its own thread and the share is the FIRST thing that thread ever does: evaluation points of
/// clients that agree on (measurement, epoch, threshold) are pairwise distinct and their shares combine.
pub fn thread_clients(a: &Args) -> Report {
  let mut rep = Report::new("thread-clients");
  let seed = a.u64("seed", 1);
  for case in 0..6u64 {
    let t: u32 = 2 + (case % 3) as u32;
    let m: Vec<u8> = format!("threaded measurement {seed} {case}").into_bytes();
    let e: Vec<u8> = vec![case as u8];
    let n = 8usize;
    let handles: Vec<_> = (0..n)
      .map(|k| {
        let (m, e) = (m.clone(), e.clone());
        std::thread::spawn(move || {
          let mg = MessageGenerator::new(SingleMeasurement::new(&m), t, &e);
          let mut rnd = [0u8; 32];
          mg.sample_local_randomness(&mut rnd);
          let r = std::panic::catch_unwind(std::panic::AssertUnwindSafe(|| {
            if k % 2 == 0 {
              Message::generate(&mg, &rnd, None).ok().map(|x| (x.share.to_bytes(), x.tag.clone()))
            } else {
              mg.share_with_local_randomness().ok().map(|w| (w.share.to_bytes(), w.tag.to_vec()))
            }
          }));
          r.ok().flatten()
        })
      })
      .collect();
    let res: Vec<Option<(Vec<u8>, Vec<u8>)>> = handles.into_iter().map(|h| h.join().ok().flatten()).collect();
    rep.evaluations += n as u64;
    let ctx = json!({"case": case, "threshold": t, "threads": n});
    let shares: Vec<Vec<u8>> = res.iter().flatten().map(|x| x.0.clone()).collect();
    if shares.len() < n {
      rep.violation("C04", "Message::generate", "threads:generation-failed", "a client thread could not produce a share".into(), ctx.clone());
      continue;
    }
    let mut xs: Vec<Vec<u8>> = shares.iter().filter_map(|b| layout(b).map(|l| b[l.s.0..l.s.0 + 24].to_vec())).collect();
    xs.sort();
    xs.dedup();
    if xs.len() != n {
      rep.violation("C04", "Commune::share", "threads:repeated-share-point",
        format!("{} clients on separate threads produced only {} distinct evaluation points", n, xs.len()), ctx.clone());
    }
    let dec: Vec<Share> = shares.iter().filter_map(|b| Share::from_bytes(b)).take(t as usize).collect();
    if !matches!(guard(|| share_recover(&dec).is_ok()), Guard::Done(true)) {
      rep.violation("C04", "share_recover", "threads:shares-do-not-combine",
        "shares of clients on separate threads do not combine".into(), ctx.clone());
    } else {
      rep.nontrivial(format!("threads:{case}"));
    }
  }
  rep.sample(json!({"threads_per_case": 8, "cases": 6}));
  rep.traces = 1;
  rep
}
