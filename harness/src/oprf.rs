//! PPOPRF client family: C12 (obliviousness / separation), C13 (DLEQ proofs under
//! substitution, nonce freshness), C15 (serialisation of keys, proofs, points, evaluations).
use crate::util::*;
use curve25519_dalek::constants::RISTRETTO_BASEPOINT_POINT;
use curve25519_dalek::ristretto::CompressedRistretto;
use curve25519_dalek::scalar::Scalar;
use ppoprf::ppoprf::{Client, Evaluation, Point, ProofDLEQ, Server, ServerPublicKey};
use rand::Rng;
use serde_json::{json, Value};
use std::collections::HashMap;

fn inputs(rng: &mut impl Rng, n: usize) -> Vec<Vec<u8>> {
  let mut v: Vec<Vec<u8>> = vec![vec![], b"a".to_vec(), b"b".to_vec(), vec![0u8; 32], vec![0xff; 166], vec![0x41; 167]];
  v.push((0..5000).map(|i| (i % 251) as u8).collect());
  // lengths around hash-block and digest sizes, all sharing one long prefix and differing only
  // in their tail (an input hash that ignores trailing bytes makes them collide)
  for l in [31usize, 32, 33, 62, 63, 64, 65, 66, 94, 95, 96, 127, 128, 129, 165, 168, 200] {
    let mut x: Vec<u8> = (0..l).map(|i| (i * 7 % 256) as u8).collect();
    let last = x.len() - 1;
    x[last] = x[last].wrapping_add(1);
    v.push(x);
    v.push((0..l).map(|i| (i * 7 % 256) as u8).collect());
  }
  while v.len() < n {
    let l = rng.gen_range(1..200);
    v.push((0..l).map(|_| rng.gen()).collect());
  }
  if n < v.len() && n <= 12 {
    // small requests (C13/C15 base requests) keep the head of the list
    v.truncate(n.max(3));
  }
  v
}

/// `vh oprf-check --seed S --blindings R --inputs N` (C12)
pub fn oprf_check(a: &Args) -> Report {
  let mut rep = Report::new("oprf-check");
  let seed = a.u64("seed", 1);
  let r_n = a.u64("blindings", 8) as usize;
  let mut rng = rng_from(seed, 1212);
  let ins = inputs(&mut rng, a.u64("inputs", 6) as usize);
  let servers: Vec<(Server, Vec<u8>)> = vec![
    (Server::new(vec![0, 1]).unwrap(), vec![0, 1]),
    (Server::new(vec![1, 200]).unwrap(), vec![1, 200]),
    (Server::new(vec![0, 127, 128, 255]).unwrap(), vec![0, 127, 128, 255]),
  ];
  let mut finals: HashMap<Vec<u8>, (usize, u8, usize)> = HashMap::new();
  let mut blinded_seen: HashMap<Vec<u8>, usize> = HashMap::new();
  for (xi, x) in ins.iter().enumerate() {
    // H(x), through the public API: unblind(blind(x))
    let mut hx: Option<Vec<u8>> = None;
    for (si, (srv, tags)) in servers.iter().enumerate() {
      for md in tags {
        let mut class_final: Option<Vec<u8>> = None;
        for ri in 0..r_n {
          let (bp, r) = Client::blind(x);
          rep.evaluations += 1;
          let ctx = json!({"server": si, "tag": md, "input_len": x.len(), "input_index": xi, "request": ri});
          let p0 = match guard(|| Client::unblind(&bp, &r)) {
            Guard::Done(p) => p,
            _ => continue,
          };
          match &hx {
            None => hx = Some(p0.as_bytes().to_vec()),
            Some(h) if *h != p0.as_bytes().to_vec() => rep.violation("C12", "Client::blind", "unblinded-point-varies",
              "unblind(blind(x)) differs between requests for one input".into(), ctx.clone()),
            _ => {}
          }
          if bp.as_bytes().to_vec() == p0.as_bytes().to_vec() {
            rep.violation("C12", "Client::blind", "blinded-equals-input-point",
              "the blinded request equals the unblinded input point".into(), ctx.clone());
          }
          if blinded_seen.insert(bp.as_bytes().to_vec(), xi).is_some() {
            rep.violation("C12", "Client::blind", "blinded-request-repeats",
              "two blinded requests coincide".into(), ctx.clone());
          }
          let verifiable = ri % 2 == 1;
          let ev = match guard(|| srv.eval(&bp, *md, verifiable)) {
            Guard::Done(Ok(e)) => e,
            _ => {
              rep.violation("C12", "Server::eval", "registered-tag-refused", "evaluation of a registered tag failed".into(), ctx.clone());
              continue;
            }
          };
          let u = match guard(|| Client::unblind(&ev.output, &r)) {
            Guard::Done(p) => p,
            _ => continue,
          };
          // equals the server's evaluation of the unblinded input point
          match guard(|| srv.eval(&p0, *md, false)) {
            Guard::Done(Ok(d)) => {
              if d.output.as_bytes() != u.as_bytes() {
                rep.violation("C12", "Client::unblind", "not-oblivious",
                  "the unblinded result differs from the server's evaluation of the unblinded input point".into(), ctx.clone());
              }
            }
            _ => rep.violation("C12", "Server::eval", "direct-eval-failed", "evaluation of the unblinded point failed".into(), ctx.clone()),
          }
          let mut out = [0u8; 32];
          if guard(|| Client::finalize(x, *md, &u, &mut out)).is_panic() {
            continue;
          }
          match &class_final {
            None => class_final = Some(out.to_vec()),
            Some(f) if *f != out.to_vec() => rep.violation("C12", "Client::finalize", "output-depends-on-blinding",
              "two requests for the same (server, tag, input) finalise to different outputs".into(), ctx.clone()),
            _ => {}
          }
          rep.nontrivial(format!("{si}:{md}:{xi}:{ri}"));
        }
        if let Some(f) = class_final {
          if let Some(prev) = finals.insert(f, (si, *md, xi)) {
            rep.violation("C12", "Client::finalize", "outputs-collide",
              format!("(server, tag, input) = {:?} and {:?} finalise to the same output", prev, (si, md, xi)),
              json!({"a": [prev.0, prev.1, prev.2], "b": [si, md, xi]}));
          }
        }
      }
    }
    if rep.samples.len() < 4 {
      rep.sample(json!({"input_len": x.len(), "servers": servers.len(), "blindings_per_class": r_n}));
    }
  }
  // freshness across client THREADS: unnamed workers, workers sharing a name, and the main thread
  // each blind the same inputs; no blinded request may repeat anywhere (a per-thread generator
  // seeded alike would make the k-th request of two workers coincide: linkable by the server)
  let mut all: HashMap<Vec<u8>, String> = HashMap::new();
  let mut handles: Vec<(String, std::thread::JoinHandle<Vec<Vec<u8>>>)> = Vec::new();
  let work = |ins: Vec<Vec<u8>>| move || -> Vec<Vec<u8>> {
    let mut v = Vec::new();
    for _ in 0..3 {
      for x in &ins {
        v.push(Client::blind(x).0.as_bytes().to_vec());
      }
    }
    v
  };
  let few: Vec<Vec<u8>> = ins.iter().take(3).cloned().collect();
  for i in 0..4 {
    handles.push((format!("unnamed-{i}"), std::thread::spawn(work(few.clone()))));
  }
  for i in 0..3 {
    if let Ok(h) = std::thread::Builder::new().name("client-worker".into()).spawn(work(few.clone())) {
      handles.push((format!("same-name-{i}"), h));
    }
  }
  let mut runs: Vec<(String, Vec<Vec<u8>>)> = vec![("main".into(), work(few.clone())())];
  for (n, h) in handles {
    if let Ok(v) = h.join() {
      runs.push((n, v));
    }
  }
  for (who, v) in runs {
    for (k, b) in v.into_iter().enumerate() {
      rep.evaluations += 1;
      if let Some(prev) = all.insert(b, format!("{who}#{k}")) {
        rep.violation("C12", "Client::blind", "blinded-request-repeats-across-threads",
          format!("request {k} of thread {who} equals request {prev}: blinded requests are not fresh"),
          json!({"first": prev, "second": format!("{who}#{k}")}));
      }
    }
    rep.nontrivial(format!("thread-fresh:{who}"));
  }
  rep.traces = 1;
  rep
}

// ---------------------------------------------------------------------------
struct Base {
  s1: Server,
  s2: Server,
  x: Vec<u8>,
}

fn restored_pk(pk: &ServerPublicKey) -> Option<ServerPublicKey> {
  ServerPublicKey::load_from_bincode(&pk.serialize_to_bincode().ok()?).ok()
}
fn restored_point(p: &Point) -> Option<Point> {
  serde_json::from_str(&serde_json::to_string(p).ok()?).ok()
}
fn restored_eval(e: &Evaluation) -> Option<Evaluation> {
  serde_json::from_str(&serde_json::to_string(e).ok()?).ok()
}
fn proof_bytes(e: &Evaluation) -> Vec<u8> {
  e.proof.as_ref().and_then(|p| p.serialize_to_bincode().ok()).unwrap_or_default()
}
fn with_proof(out: &Point, pb: &[u8]) -> Option<Evaluation> {
  Some(Evaluation { output: out.clone(), proof: Some(ProofDLEQ::load_from_bincode(pb).ok()?) })
}
fn add_one_le(b: &mut [u8]) {
  for x in b.iter_mut() {
    let (v, c) = x.overflowing_add(1);
    *x = v;
    if !c {
      break;
    }
  }
}

/// `vh dleq-replay --lines F --seed S --bases N` (C13; with `--prop C15` only the restored cases)
pub fn dleq_replay(a: &Args) -> Report {
  let prop = a.str("prop", "C13");
  let mut rep = Report::new(&format!("dleq-replay-{prop}"));
  let lines: Vec<Value> = read_lines(a.get("lines").expect("--lines")).iter().map(|l| serde_json::from_str(l).unwrap()).collect();
  let seed = a.u64("seed", 1);
  let mut rng = rng_from(seed, 1313);
  let xs = inputs(&mut rng, a.u64("bases", 3) as usize);
  for (bi, x) in xs.iter().enumerate() {
    let b = Base { s1: Server::new(vec![0, 1]).unwrap(), s2: Server::new(vec![1, 200]).unwrap(), x: x.clone() };
    let md: u8 = 1;
    let pk1 = b.s1.get_public_key();
    let (inp, _r) = Client::blind(&b.x);
    let ev = match b.s1.eval(&inp, md, true) {
      Ok(e) => e,
      Err(_) => continue,
    };
    let pb = proof_bytes(&ev);
    // other honest material
    let (inp_other_req, _) = Client::blind(&b.x);
    let (inp_other_x, _) = Client::blind(b"a different input");
    let ev_other_x = b.s1.eval(&inp_other_x, md, true).unwrap();
    let ev_other_req = b.s1.eval(&inp, md, true).unwrap(); // same request again: new nonce
    let ev_s2 = b.s2.eval(&inp, md, true).unwrap();
    let ev_tag0 = b.s1.eval(&inp, 0, true).unwrap();
    let identity = Point::from(&[0u8; 32][..]);
    for l in &lines {
      let comp = l["comp"].as_str().unwrap();
      let cls = l["cls"].as_str().unwrap();
      let want = l["accept"].as_u64().unwrap() == 1;
      if prop == "C15" && cls != "restored" {
        continue;
      }
      // variants of one (component, class): several concrete realisations
      let mut variants: Vec<(String, ServerPublicKey, Point, Option<Evaluation>, u8)> = Vec::new();
      let base_ev = || with_proof(&ev.output, &pb);
      match (comp, cls) {
        (_, "same") => variants.push(("as-is".into(), pk1.clone(), inp.clone(), base_ev(), md)),
        ("pk", "restored") => {
          if let Some(p) = restored_pk(&pk1) {
            if p != pk1 {
              rep.violation("C15", "ServerPublicKey::load_from_bincode", "restored-differs", "restored public key differs".into(), json!({"base": bi}));
            }
            variants.push(("bincode".into(), p, inp.clone(), base_ev(), md));
          } else {
            rep.violation("C15", "ServerPublicKey::load_from_bincode", "restore-failed", "public key does not survive bincode".into(), json!({"base": bi}));
          }
        }
        ("in", "restored") => match restored_point(&inp) {
          Some(p) => {
            if p != inp {
              rep.violation("C15", "Point serde_json", "restored-differs", "restored point differs".into(), json!({"base": bi}));
            }
            variants.push(("json".into(), pk1.clone(), p, base_ev(), md));
          }
          None => rep.violation("C15", "Point serde_json", "restore-failed", "point does not survive JSON".into(), json!({"base": bi})),
        },
        ("out", "restored") | ("c", "restored") | ("s", "restored") | ("md", "restored") => match restored_eval(&ev) {
          Some(e2) => {
            if e2.output != ev.output || proof_bytes(&e2) != pb {
              rep.violation("C15", "Evaluation serde_json", "restored-differs", "restored evaluation differs".into(), json!({"base": bi}));
            }
            variants.push(("json".into(), pk1.clone(), inp.clone(), Some(e2), md));
            // and the proof alone through bincode
            variants.push(("proof-bincode".into(), pk1.clone(), inp.clone(), base_ev(), md));
          }
          None => rep.violation("C15", "Evaluation serde_json", "restore-failed", "evaluation does not survive JSON".into(), json!({"base": bi})),
        },
        ("pk", "other-server") => variants.push(("s2".into(), b.s2.get_public_key(), inp.clone(), base_ev(), md)),
        ("pk", "other-tag") => {
          // swap the points registered for tags 0 and 1 (bincode: base | n | (tag, point)*)
          let mut c = pk1.serialize_to_bincode().unwrap();
          let (a0, a1) = (41usize, 41 + 33);
          for k in 0..32 {
            c.swap(a0 + k, a1 + k);
          }
          if let Ok(p) = ServerPublicKey::load_from_bincode(&c) {
            variants.push(("swapped".into(), p, inp.clone(), base_ev(), md));
          }
          // and the base point replaced by the other server's
          let mut c = pk1.serialize_to_bincode().unwrap();
          let o = b.s2.get_public_key().serialize_to_bincode().unwrap();
          c[..32].copy_from_slice(&o[..32]);
          if let Ok(p) = ServerPublicKey::load_from_bincode(&c) {
            variants.push(("foreign-base".into(), p, inp.clone(), base_ev(), md));
          }
        }
        ("in", "other-honest") => variants.push(("other-request".into(), pk1.clone(), inp_other_req.clone(), base_ev(), md)),
        ("in", "neighbour") => {
          variants.push(("other-input".into(), pk1.clone(), inp_other_x.clone(), base_ev(), md));
          for bit in [0usize, 7, 100, 255] {
            let mut c = *inp.as_bytes();
            c[bit / 8] ^= 1 << (bit % 8);
            variants.push((format!("bitflip{bit}"), pk1.clone(), Point::from(&c[..]), base_ev(), md));
          }
        }
        ("in", "identity") => variants.push(("identity".into(), pk1.clone(), identity.clone(), base_ev(), md)),
        ("out", "other-honest") => {
          variants.push(("other-input".into(), pk1.clone(), inp.clone(), with_proof(&ev_other_x.output, &pb), md));
          // a complete honest evaluation of another request, presented for this input
          variants.push(("whole-other-eval".into(), pk1.clone(), inp.clone(), with_proof(&ev_other_x.output, &proof_bytes(&ev_other_x)), md));
        }
        ("out", "neighbour") => {
          for bit in [0usize, 9, 130, 254] {
            let mut c = *ev.output.as_bytes();
            c[bit / 8] ^= 1 << (bit % 8);
            variants.push((format!("bitflip{bit}"), pk1.clone(), inp.clone(), with_proof(&Point::from(&c[..]), &pb), md));
          }
        }
        ("out", "identity") => variants.push(("identity".into(), pk1.clone(), inp.clone(), with_proof(&identity, &pb), md)),
        ("out", "other-server") => {
          variants.push(("s2-output".into(), pk1.clone(), inp.clone(), with_proof(&ev_s2.output, &pb), md));
          variants.push(("s2-whole-eval".into(), pk1.clone(), inp.clone(), with_proof(&ev_s2.output, &proof_bytes(&ev_s2)), md));
        }
        ("out", "other-tag") => {
          variants.push(("tag0-output".into(), pk1.clone(), inp.clone(), with_proof(&ev_tag0.output, &pb), md));
          variants.push(("tag0-whole-eval".into(), pk1.clone(), inp.clone(), with_proof(&ev_tag0.output, &proof_bytes(&ev_tag0)), md));
        }
        ("md", "other-honest") => variants.push(("tag0".into(), pk1.clone(), inp.clone(), base_ev(), 0)),
        ("md", "neighbour") => {
          variants.push(("unregistered200".into(), pk1.clone(), inp.clone(), base_ev(), 200));
          variants.push(("unregistered2".into(), pk1.clone(), inp.clone(), base_ev(), 2));
        }
        ("c", k) | ("s", k) => {
          let off = if comp == "c" { 0 } else { 32 };
          let other = proof_bytes(&ev_other_req);
          let mut muts: Vec<(String, Vec<u8>)> = Vec::new();
          match k {
            "other-honest" => {
              let mut c = pb.clone();
              c[off..off + 32].copy_from_slice(&other[off..off + 32]);
              muts.push(("from-other-proof".into(), c));
            }
            "neighbour" => {
              let mut c = pb.clone();
              add_one_le(&mut c[off..off + 32]);
              muts.push(("plus-one".into(), c));
              // one bit in every byte of the scalar (a verifier that reads only part of it)
              for bit in [0usize, 77, 250].into_iter().chain((0..32).map(|i| 8 * i + (i * 3) % 8)) {
                let mut c = pb.clone();
                c[off + bit / 8] ^= 1 << (bit % 8);
                muts.push((format!("bitflip{bit}"), c));
              }
            }
            _ => {
              let mut c = pb.clone();
              for z in c[off..off + 32].iter_mut() {
                *z = 0;
              }
              muts.push(("zero".into(), c));
            }
          }
          for (n, c) in muts {
            variants.push((n, pk1.clone(), inp.clone(), with_proof(&ev.output, &c), md));
          }
        }
        _ => {}
      }
      for (vname, pk, ip, evo, m) in variants {
        rep.evaluations += 1;
        let ctx = json!({"base": bi, "input_len": b.x.len(), "component": comp, "class": cls, "variant": vname, "expected_accept": want});
        let got = match &evo {
          None => false, // the substituted value did not even load: rejected
          Some(e) => match guard(|| Client::verify(&pk, &ip, e, m)) {
            Guard::Done(v) => v,
            Guard::Panic(_) => false, // a panic is a C09 observation; here: not accepted
          },
        };
        rep.nontrivial(format!("{bi}:{comp}:{cls}:{vname}"));
        if got != want {
          let (p, site, class) = if want {
            (if cls == "restored" { "C15" } else { "C13" }, "Client::verify", format!("honest-rejected:{comp}:{cls}"))
          } else {
            ("C13", "Client::verify", format!("tampered-accepted:{comp}:{cls}"))
          };
          if prop == p || (prop == "C13" && p == "C13") || (prop == "C15" && p == "C15") {
            rep.violation(p, site, &class,
              format!("specification says accept={want}, Client::verify returned {got} ({comp}/{cls}/{vname})"), ctx.clone());
          }
        }
        if rep.samples.len() < 5 && vname.starts_with("bitflip0") {
          rep.sample(ctx);
        }
      }
    }
  }
  rep.traces = 1;
  rep
}

/// `vh nonce-check --seed S --n N` (C13): commitments of different proofs are pairwise different
pub fn nonce_check(a: &Args) -> Report {
  let mut rep = Report::new("nonce-check");
  let n = a.u64("n", 64);
  let srv = Server::new(vec![3, 4]).unwrap();
  let pkb = srv.get_public_key().serialize_to_bincode().unwrap();
  let pt = |b: &[u8]| CompressedRistretto::from_slice(b).ok().and_then(|c| c.decompress());
  let base = pt(&pkb[..32]);
  let mut mdpk: HashMap<u8, curve25519_dalek::ristretto::RistrettoPoint> = HashMap::new();
  for i in 0..2 {
    let o = 40 + 33 * i;
    if let Some(p) = pt(&pkb[o + 1..o + 33]) {
      mdpk.insert(pkb[o], p);
    }
  }
  let mut seen: HashMap<[u8; 32], u64> = HashMap::new();
  let (same_req, _) = Client::blind(b"repeated request");
  for i in 0..n {
    let md = if i % 2 == 0 { 3u8 } else { 4 };
    let p = if i % 3 == 0 { same_req.clone() } else { Client::blind(&i.to_le_bytes()).0 };
    let ev = match srv.eval(&p, md, true) {
      Ok(e) => e,
      Err(_) => continue,
    };
    let pb = proof_bytes(&ev);
    rep.evaluations += 1;
    let (c, s) = match (
      Option::<Scalar>::from(Scalar::from_canonical_bytes(pb[..32].try_into().unwrap())),
      Option::<Scalar>::from(Scalar::from_canonical_bytes(pb[32..64].try_into().unwrap())),
    ) {
      (Some(c), Some(s)) => (c, s),
      _ => {
        rep.violation("C13", "ProofDLEQ", "non-canonical-scalars", "proof scalars are not canonical".into(), json!({"i": i}));
        continue;
      }
    };
    let pkv = match (base, mdpk.get(&md)) {
      (Some(b), Some(m)) => b + m,
      _ => continue,
    };
    let t2 = (s * RISTRETTO_BASEPOINT_POINT + c * pkv).compress().to_bytes();
    if let Some(prev) = seen.insert(t2, i) {
      rep.violation("C13", "ProofDLEQ::new_batch", "commitment-reused",
        format!("proofs {prev} and {i} carry the same commitment: the nonce is reused and the key can be solved for"),
        json!({"proofs": [prev, i]}));
    }
    rep.nontrivial(format!("nonce:{i}"));
  }
  // copies of the server — clones taken before and after it has issued proofs, a clone of a clone,
  // an instance restored from exported key state, a clone working on another thread — hold the same
  // key: a commitment repeated ACROSS copies exposes it just the same.  The copies answer in lockstep
  // (the k-th proof of each copy after the copying point), each a different request.
  let fresh = Server::new(vec![3, 4]).unwrap();
  let early = fresh.clone();
  let mut copies: Vec<(String, Server)> = vec![("original".into(), fresh), ("clone-before-first-proof".into(), early)];
  for k in 0..3u64 {
    let _ = copies[0].1.eval(&Client::blind(&k.to_le_bytes()).0, 3, true);
  }
  let late = copies[0].1.clone();
  let late2 = late.clone();
  copies.push(("clone-after-three-proofs".into(), late));
  copies.push(("clone-of-clone".into(), late2));
  {
    let st = copies[0].1.get_private_key();
    if let Ok(bytes) = bincode::serialize(&st) {
      if let Ok(state) = bincode::deserialize::<ppoprf::ppoprf::ServerKeyState>(&bytes) {
        let mut other = Server::new(vec![3, 4]).unwrap();
        other.set_private_key(state);
        copies.push(("restored-from-export".into(), other));
      }
    }
  }
  let pkb2 = copies[0].1.get_public_key().serialize_to_bincode().unwrap();
  let base2 = pt(&pkb2[..32]);
  let mut mdpk2: HashMap<u8, curve25519_dalek::ristretto::RistrettoPoint> = HashMap::new();
  for i in 0..2 {
    let o = 40 + 33 * i;
    if let Some(p) = pt(&pkb2[o + 1..o + 33]) {
      mdpk2.insert(pkb2[o], p);
    }
  }
  let commitment = |ev: &Evaluation, md: u8| -> Option<[u8; 32]> {
    let pb = proof_bytes(ev);
    let c = Option::<Scalar>::from(Scalar::from_canonical_bytes(pb[..32].try_into().ok()?))?;
    let s = Option::<Scalar>::from(Scalar::from_canonical_bytes(pb[32..64].try_into().ok()?))?;
    let pkv = base2? + mdpk2.get(&md)?;
    Some((s * RISTRETTO_BASEPOINT_POINT + c * pkv).compress().to_bytes())
  };
  let mut seen2: HashMap<[u8; 32], String> = HashMap::new();
  for step in 0..(n / 4).max(6) {
    // one copy answers on another thread at every step
    let th_copy = copies[1].1.clone();
    let th_req = Client::blind(format!("thread {step}").as_bytes()).0;
    let th = std::thread::spawn(move || th_copy.eval(&th_req, 3, true).ok());
    let mut evs: Vec<(String, Evaluation)> = Vec::new();
    for (ci, (name, srv)) in copies.iter().enumerate() {
      let req = Client::blind(format!("copy {ci} step {step}").as_bytes()).0;
      if let Ok(ev) = srv.eval(&req, 3, true) {
        evs.push((format!("{name}#{step}"), ev));
      }
    }
    if let Ok(Some(ev)) = th.join() {
      evs.push((format!("fresh-clone-on-thread#{step}"), ev));
    }
    for (who, ev) in evs {
      rep.evaluations += 1;
      if let Some(t2) = commitment(&ev, 3) {
        if let Some(prev) = seen2.insert(t2, who.clone()) {
          rep.violation("C13", "ProofDLEQ::new_batch", "commitment-reused-across-copies",
            format!("the proofs {prev} and {who} (different requests) carry the same commitment: copies of a server replay the nonce and expose the key"),
            json!({"proofs": [prev, who]}));
        }
        rep.nontrivial(format!("nonce-copy:{who}"));
      }
    }
  }
  rep.sample(json!({"proofs": n, "repeated_identical_requests": n / 3, "server_copies": copies.len() + 1}));
  rep.traces = 1;
  rep
}

/// `vh serde-check --seed S` (C15): restored keys / proofs / points / evaluations equal the
/// originals; malformed JSON yields an error.
pub fn serde_check(a: &Args) -> Report {
  let mut rep = Report::new("serde-check");
  let seed = a.u64("seed", 1);
  let mut rng = rng_from(seed, 1515);
  for nt in [0usize, 1, 2, 3, 17, 64, 255, 256] {
    let tags: Vec<u8> = (0..nt).map(|i| i as u8).collect();
    let srv = match Server::new(tags.clone()) {
      Ok(s) => s,
      Err(_) => continue,
    };
    let pk = srv.get_public_key();
    let ctx = json!({"tags": nt});
    rep.evaluations += 1;
    let b = match pk.serialize_to_bincode() {
      Ok(b) => b,
      Err(_) => {
        rep.violation("C15", "ServerPublicKey::serialize_to_bincode", "serialize-failed", "cannot serialise".into(), ctx);
        continue;
      }
    };
    if b.len() != 40 + 33 * nt {
      rep.violation("C15", "ServerPublicKey::serialize_to_bincode", "layout",
        format!("public key with {nt} tags serialises to {} bytes, documented layout gives {}", b.len(), 40 + 33 * nt), ctx.clone());
    }
    match ServerPublicKey::load_from_bincode(&b) {
      Ok(p2) if p2 == pk => {
        rep.nontrivial(format!("pk:{nt}"));
        // interchangeable in verification
        if let Some(md) = tags.get(rng.gen_range(0..tags.len().max(1))) {
          let (p, _) = Client::blind(b"serde");
          if let Ok(ev) = srv.eval(&p, *md, true) {
            let e2: Option<Evaluation> = serde_json::to_string(&ev).ok().and_then(|s| serde_json::from_str(&s).ok());
            let p2j: Option<Point> = serde_json::to_string(&p).ok().and_then(|s| serde_json::from_str(&s).ok());
            rep.evaluations += 1;
            match (e2, p2j) {
              (Some(e2), Some(pj)) => {
                if !matches!(guard(|| Client::verify(&p2, &pj, &e2, *md)), Guard::Done(true)) {
                  rep.violation("C15", "Client::verify", "restored-not-interchangeable",
                    "verification with restored key, point and evaluation fails".into(), ctx.clone());
                }
              }
              _ => rep.violation("C15", "serde_json", "restore-failed", "point or evaluation does not survive JSON".into(), ctx.clone()),
            }
          }
        }
      }
      Ok(_) => rep.violation("C15", "ServerPublicKey::load_from_bincode", "restored-differs", "restored public key differs".into(), ctx.clone()),
      Err(_) => {
        if b.len() <= 16384 {
          rep.violation("C15", "ServerPublicKey::load_from_bincode", "restore-failed", "public key within the size limit does not load".into(), ctx.clone());
        }
      }
    }
  }
  // many honest evaluation outputs through their JSON form (a value-dependent refusal of valid
  // encodings — say, one particular top byte — needs volume: 2000 points leave 2^-22 for 1 in 128)
  {
    let srv = Server::new(vec![9, 200]).unwrap();
    let pk = srv.get_public_key();
    for i in 0..2000u32 {
      let (p, _) = Client::blind(&i.to_le_bytes());
      let md = if i % 2 == 0 { 9 } else { 200 };
      let verifiable = i % 16 == 0;
      if let Ok(ev) = srv.eval(&p, md, verifiable) {
        rep.evaluations += 1;
        let back: Option<Evaluation> = serde_json::to_string(&ev).ok().and_then(|s| serde_json::from_str(&s).ok());
        let pback: Option<Point> = serde_json::to_string(&p).ok().and_then(|s| serde_json::from_str(&s).ok());
        match (back, pback) {
          (Some(e2), Some(p2)) => {
            if e2.output.as_bytes() != ev.output.as_bytes() || p2.as_bytes() != p.as_bytes() {
              rep.violation("C15", "serde_json", "restored-differs", "a point or evaluation restored from JSON differs from the original".into(), json!({"i": i}));
            } else if verifiable && !matches!(guard(|| Client::verify(&pk, &p2, &e2, md)), Guard::Done(true)) {
              rep.violation("C15", "Client::verify", "restored-not-interchangeable", "a restored evaluation does not verify".into(), json!({"i": i}));
            }
          }
          _ => rep.violation("C15", "serde_json", "restore-failed",
            format!("an honest evaluation / point does not survive its JSON form (output top byte {:#04x})", ev.output.as_bytes()[31]), json!({"i": i})),
        }
      }
    }
    rep.nontrivial("json-volume".into());
  }
  // JSON forms: malformed input is an error, never a partially initialised value
  let srv = Server::new(vec![9]).unwrap();
  let (p, _) = Client::blind(b"json");
  let ev = srv.eval(&p, 9, true).unwrap();
  let js = serde_json::to_string(&ev).unwrap();
  let pjs = serde_json::to_string(&p).unwrap();
  let mut bad: Vec<(String, String, bool)> = Vec::new(); // (name, json, is_point)
  for cut in [0usize, 1, js.len() / 2, js.len() - 1] {
    bad.push((format!("truncated{cut}"), js[..cut].to_string(), false));
  }
  bad.push(("output-not-base64".into(), js.replacen("\"output\":\"", "\"output\":\"!!", 1), false));
  bad.push(("output-31-bytes".into(), json!({"output": base64_of(&[1u8; 31]), "proof": null}).to_string(), false));
  bad.push(("output-33-bytes".into(), json!({"output": base64_of(&[1u8; 33]), "proof": null}).to_string(), false));
  bad.push(("missing-output".into(), json!({"proof": null}).to_string(), false));
  bad.push(("point-short".into(), json!([1, 2, 3]).to_string(), true));
  bad.push(("point-truncated".into(), pjs[..pjs.len() / 2].to_string(), true));
  for (name, j, is_point) in bad {
    rep.evaluations += 1;
    rep.nontrivial(format!("json:{name}"));
    let accepted = if is_point {
      matches!(guard(|| serde_json::from_str::<Point>(&j).is_ok()), Guard::Done(true))
    } else {
      matches!(guard(|| serde_json::from_str::<Evaluation>(&j).is_ok()), Guard::Done(true))
    };
    if accepted {
      rep.violation("C15", "serde_json", &format!("malformed-accepted:{name}"),
        "malformed JSON was accepted".into(), json!({"case": name}));
    }
  }
  rep.sample(json!({"tag_set_sizes": [0, 1, 2, 3, 17, 64, 255, 256], "malformed_json_cases": 10}));
  rep.traces = 1;
  rep
}

fn base64_of(b: &[u8]) -> String {
  use base64::{engine::Engine as _, prelude::BASE64_STANDARD};
  BASE64_STANDARD.encode(b)
}

/// `vh proof-complete --seed S --requests N` (C13 completeness): every honest verifiable evaluation
/// verifies — directly, and after the public key (bincode) and the evaluation (JSON) have been
/// serialised and restored — for servers over tag sets of size 1 .. 256 and tags at both ends.
pub fn proof_complete(a: &Args) -> Report {
  let mut rep = Report::new("proof-complete");
  let seed = a.u64("seed", 1);
  let nreq = a.u64("requests", 3) as usize;
  let mut rng = rng_from(seed, 1314);
  let xs = inputs(&mut rng, nreq.max(3));
  // tag lists: sizes 1..256, and ORDERS — ascending, descending, shuffled, sibling leaves (t, t+128)
  // and cousins listed high-first and low-first, with repeats
  use rand::seq::SliceRandom;
  let mut lists: Vec<Vec<u8>> = vec![vec![255]];
  for nt in [2usize, 3, 17, 128, 255, 256] {
    lists.push((0..nt).map(|i| i as u8).collect());
  }
  lists.push(vec![130, 2]);
  lists.push(vec![2, 130]);
  lists.push(vec![255, 127, 128, 0, 64, 192]);
  lists.push((0..17u8).rev().collect());
  lists.push((0..=255u8).rev().collect());
  lists.push(vec![7, 135, 7, 135, 3]);
  for n in [16usize, 100, 256] {
    let mut all: Vec<u8> = (0..=255u8).collect();
    all.shuffle(&mut rng);
    all.truncate(n);
    lists.push(all);
  }
  for tags in lists {
    let nt = tags.len();
    let srv = match Server::new(tags.clone()) {
      Ok(s) => s,
      Err(_) => continue,
    };
    let pk = srv.get_public_key();
    let restored = restored_pk(&pk);
    // every tag of a small list; first, last, middle and eight others of a large one
    let mut probe: Vec<u8> = if nt <= 20 { tags.clone() } else {
      let mut p = vec![tags[0], tags[nt - 1], tags[nt / 2]];
      for _ in 0..8 {
        p.push(tags[rng.gen_range(0..nt)]);
      }
      p
    };
    probe.sort();
    probe.dedup();
    for md in probe {
      for (xi, x) in xs.iter().take(nreq).enumerate() {
        let (bp, _r) = Client::blind(x);
        let ev = match srv.eval(&bp, md, true) {
          Ok(e) => e,
          Err(_) => {
            rep.violation("C13", "Server::eval", "verifiable-eval-failed", "verifiable evaluation of a registered tag failed".into(), json!({"tags": nt, "tag": md}));
            continue;
          }
        };
        let ctx = json!({"tag_set_size": nt, "tag": md, "input_index": xi});
        rep.evaluations += 3;
        rep.nontrivial(format!("{nt}:{md}:{xi}"));
        if !matches!(guard(|| Client::verify(&pk, &bp, &ev, md)), Guard::Done(true)) {
          rep.violation("C13", "Client::verify", "honest-rejected", "an honest verifiable evaluation does not verify".into(), ctx.clone());
        }
        // the same evaluation presented under any OTHER tag (registered or not) is rejected —
        // also for public keys that commit to a single tag
        for other in [md ^ 1, md.wrapping_add(1), md.wrapping_sub(1), md ^ 128, 0u8, 255, 7] {
          if other == md {
            continue;
          }
          rep.evaluations += 1;
          for key in [Some(&pk), restored.as_ref()].into_iter().flatten() {
            if matches!(guard(|| Client::verify(key, &bp, &ev, other)), Guard::Done(true)) {
              rep.violation("C13", "Client::verify", "wrong-tag-accepted",
                format!("an evaluation for tag {md} verifies under tag {other} (public key with {nt} tag(s))"),
                json!({"tag_set_size": nt, "tag": md, "presented_as": other}));
            }
          }
        }
        match &restored {
          Some(p2) => {
            if !matches!(guard(|| Client::verify(p2, &bp, &ev, md)), Guard::Done(true)) {
              rep.violation("C13", "Client::verify", "honest-rejected-after-pk-restore",
                "an honest evaluation does not verify under the restored public key".into(), ctx.clone());
            }
            match (restored_eval(&ev), restored_point(&bp)) {
              (Some(e2), Some(b2)) => {
                if !matches!(guard(|| Client::verify(p2, &b2, &e2, md)), Guard::Done(true)) {
                  rep.violation("C13", "Client::verify", "honest-rejected-after-restore",
                    "an honest evaluation does not verify after key, point and evaluation were serialised and restored".into(), ctx.clone());
                }
              }
              _ => rep.violation("C13", "serde_json", "evaluation-not-restorable",
                "an honest evaluation or request point does not survive JSON".into(), ctx.clone()),
            }
          }
          None => rep.violation("C13", "ServerPublicKey::load_from_bincode", "public-key-not-restorable",
            format!("the public key of a server with {nt} tags cannot be restored from its own serialisation"), ctx.clone()),
        }
      }
    }
    rep.sample(json!({"tag_set_size": nt, "requests_per_tag": nreq}));
  }
  // ... and after the server's key has travelled: a clone, an instance restored from exported key
  // state — created with the SAME tag list, with an overlapping one, with none — an instance
  // re-synchronised twice, and all of them after some other tags were punctured.  The public key is
  // the exporter's; every honest verifiable evaluation of a live tag verifies against it.
  {
    use ppoprf::ppoprf::ServerKeyState;
    let tags: Vec<u8> = vec![0, 1, 7, 128, 255];
    if let Ok(mut origin) = Server::new(tags.clone()) {
      let pk = origin.get_public_key();
      let export = |s: &Server| -> Option<ServerKeyState> {
        bincode::serialize(&s.get_private_key()).ok().and_then(|b| bincode::deserialize::<ServerKeyState>(&b).ok())
      };
      for round in 0..3 {
        let mut copies: Vec<(String, Server)> = vec![("clone".into(), origin.clone())];
        for (name, own) in [("restored-into-same-tags", tags.clone()), ("restored-into-overlapping-tags", vec![1u8, 7, 9]),
                            ("restored-into-no-tags", vec![]), ("restored-into-other-tags", vec![200u8, 201])] {
          if let (Ok(mut imp), Some(st)) = (Server::new(own), export(&origin)) {
            if matches!(guard(|| imp.set_private_key(st)), Guard::Done(())) {
              copies.push((name.into(), imp));
            }
          }
        }
        // re-synchronised a second time from the first restored copy
        if copies.len() >= 2 {
          if let (Ok(mut imp), Some(st)) = (Server::new(tags.clone()), export(&copies[1].1)) {
            let _ = guard(|| imp.set_private_key(st));
            copies.push(("restored-from-a-restored-copy".into(), imp));
          }
        }
        let live: Vec<u8> = tags.iter().cloned().filter(|t| ![1u8, 128][..round.min(2)].contains(t)).collect();
        for (name, srv) in &copies {
          for md in &live {
            let (bp, _r) = Client::blind(format!("travel {round} {name} {md}").as_bytes());
            rep.evaluations += 1;
            match guard(|| srv.eval(&bp, *md, true)) {
              Guard::Done(Ok(ev)) => {
                if !matches!(guard(|| Client::verify(&pk, &bp, &ev, *md)), Guard::Done(true)) {
                  rep.violation("C13", "Client::verify", &format!("honest-rejected:{name}"),
                    format!("an honest verifiable evaluation by a server copy ({name}) does not verify against the public key"),
                    json!({"copy": name, "tag": md, "punctured_so_far": round.min(2)}));
                } else {
                  rep.nontrivial(format!("travel:{round}:{name}:{md}"));
                }
              }
              _ => rep.violation("C13", "Server::eval", &format!("verifiable-eval-failed:{name}"),
                format!("verifiable evaluation of a live tag failed on a server copy ({name})"), json!({"copy": name, "tag": md})),
            }
          }
        }
        // puncture another tag on the origin before the next round
        let _ = guard(|| origin.puncture([1u8, 128, 7][round]));
      }
    }
  }
  rep.traces = 1;
  rep
}

// ---------------------------------------------------------------------------
// C13 against a MALICIOUS SERVER: forged proofs for false statements.
//
// The ideal-DLEQ model (PPOPRF.tla `Verify`) says a proof is accepted only for the statement it was
// honestly issued for.  Substituting honest values (dleq-replay) cannot distinguish a sound proof
// system from one that has lost a binding which only a prover who knows the key can exploit.  Here
// the harness plays that prover: it chooses its own keys, publishes a well-formed public key, and
// for a FALSE statement (an output that is not the evaluation of the request under the committed
// key) builds proofs under the assumption that one commitment is missing from the challenge.  The
// transcript layout is mirrored from the library; a positive control (an honest proof built with the
// mirrored transcript must verify) guards against the mirror being out of date.

fn strobe_hash64(input: &[u8], label: &str) -> [u8; 64] {
  use strobe_rs::{SecParam, Strobe};
  let mut t = Strobe::new(label.as_bytes(), SecParam::B128);
  t.key(input, false);
  let mut out = [0u8; 64];
  t.meta_ad(&(64u32).to_le_bytes(), false);
  t.prf(&mut out, false);
  out
}
fn h2s(input: &[u8], label: &str) -> Scalar {
  Scalar::from_bytes_mod_order_wide(&strobe_hash64(input, label))
}
fn lp(out: &mut Vec<u8>, b: &[u8]) {
  out.extend((b.len() as u16).to_be_bytes());
  out.extend(b);
}
type RP = curve25519_dalek::ristretto::RistrettoPoint;
fn composites(pk: &RP, c: &RP, d: &RP) -> (RP, RP) {
  let ctx = format!("{}-{}-{}", "PPOPRFv1", 0x03, "ristretto255-strobe");
  let mut st = Vec::new();
  lp(&mut st, pk.compress().as_bytes());
  lp(&mut st, ctx.as_bytes());
  let seed = strobe_hash64(&st, "Seed");
  let mut ct = Vec::new();
  lp(&mut ct, &seed);
  ct.extend((0u16).to_be_bytes());
  lp(&mut ct, c.compress().as_bytes());
  lp(&mut ct, d.compress().as_bytes());
  let di = h2s(&ct, "Composite");
  (di * c, di * d)
}
fn challenge(parts: &[&RP]) -> Scalar {
  let mut t = Vec::new();
  for p in parts {
    lp(&mut t, p.compress().as_bytes());
  }
  h2s(&t, "Challenge")
}

/// `vh dleq-forge --seed S --n N` (C13)
pub fn dleq_forge(a: &Args) -> Report {
  let mut rep = Report::new("dleq-forge");
  let n = a.u64("n", 6);
  let seed = a.u64("seed", 1);
  let mut rng = rng_from(seed, 1317);
  let g = RISTRETTO_BASEPOINT_POINT;
  let rs = |rng: &mut rand_chacha::ChaCha8Rng| -> Scalar {
    let mut b = [0u8; 64];
    rng.fill(&mut b);
    Scalar::from_bytes_mod_order_wide(&b)
  };
  let mut control_ok = 0u64;
  for i in 0..n {
    // the malicious server's keys and its (well-formed) public key for tags 3 and 4
    let k0 = rs(&mut rng);
    let (ts3, ts4) = (rs(&mut rng), rs(&mut rng));
    let mut pkb: Vec<u8> = Vec::new();
    pkb.extend((k0 * g).compress().as_bytes());
    pkb.extend(2u64.to_le_bytes());
    pkb.push(3);
    pkb.extend((ts3 * g).compress().as_bytes());
    pkb.push(4);
    pkb.extend((ts4 * g).compress().as_bytes());
    let pk = match ServerPublicKey::load_from_bincode(&pkb) {
      Ok(p) => p,
      Err(_) => continue,
    };
    let md = 4u8;
    let k = k0 + ts4;
    let pkv = k * g;
    let (req, _r) = Client::blind(format!("forge {i}").as_bytes());
    let p = match CompressedRistretto::from_slice(req.as_bytes()).ok().and_then(|c| c.decompress()) {
      Some(p) => p,
      None => continue,
    };
    let mk = |c: Scalar, s: Scalar, out: &RP| -> Option<Evaluation> {
      let mut pb = c.to_bytes().to_vec();
      pb.extend(s.to_bytes());
      Some(Evaluation { output: Point::from(&out.compress().to_bytes()[..]), proof: Some(ProofDLEQ::load_from_bincode(&pb).ok()?) })
    };
    // positive controls: an HONEST statement proved through the mirrored transcript must verify.
    // The mirror is tried with the full challenge and with each reduced variant: whichever variant
    // makes honest proofs verify is the transcript the library actually uses.  (A reduced variant
    // verifying is not yet a violation — the forgery for a FALSE statement below is.)
    let w_true = k.invert() * p;
    let (m, z) = composites(&pkv, &w_true, &p);
    let mut variants_ok: Vec<&str> = Vec::new();
    for vname in ["full", "without-t3", "without-t2", "without-commitments"] {
      let r = rs(&mut rng);
      let (t2, t3) = (r * g, r * m);
      let c = match vname {
        "full" => challenge(&[&pkv, &m, &z, &t2, &t3]),
        "without-t3" => challenge(&[&pkv, &m, &z, &t2]),
        "without-t2" => challenge(&[&pkv, &m, &z, &t3]),
        _ => challenge(&[&pkv, &m, &z]),
      };
      let ev = mk(c, r - c * k, &w_true);
      rep.evaluations += 1;
      if ev.as_ref().map(|e| matches!(guard(|| Client::verify(&pk, &req, e, md)), Guard::Done(true))).unwrap_or(false) {
        variants_ok.push(vname);
      }
    }
    if variants_ok.is_empty() {
      rep.count("positive_control_failed", 1);
      continue; // the mirror of the transcript is out of date: the forgeries below would be vacuous
    }
    control_ok += 1;
    for v in &variants_ok {
      rep.count(&format!("library_transcript_matches:{v}"), 1);
    }
    // false statements
    let k_other = k0 + ts3; // the key of the OTHER registered tag
    let outs: Vec<(&str, RP)> = vec![
      ("evaluation-under-other-tag", k_other.invert() * p),
      ("random-point", rs(&mut rng) * g),
      ("request-point-itself", p),
    ];
    for (wname, w) in outs {
      let (m, z) = composites(&pkv, &w, &p);
      let mut attempts: Vec<(&str, Option<Evaluation>)> = Vec::new();
      // (A) the second commitment t3 = r*M is not bound: a Schnorr signature by the committed key suffices
      let r = rs(&mut rng);
      let t2 = r * g;
      let c = challenge(&[&pkv, &m, &z, &t2]);
      attempts.push(("challenge-without-t3", mk(c, r - c * k, &w)));
      // (B) the first commitment t2 = r*G is not bound: knowledge of log_M(Z) suffices, whatever pk is
      if wname == "evaluation-under-other-tag" {
        let r = rs(&mut rng);
        let t3 = r * m;
        let c = challenge(&[&pkv, &m, &z, &t3]);
        attempts.push(("challenge-without-t2", mk(c, r - c * k_other, &w)));
      }
      // (C) no commitment bound at all
      let c = challenge(&[&pkv, &m, &z]);
      attempts.push(("challenge-without-commitments", mk(c, rs(&mut rng), &w)));
      // (D) full transcript, response computed for the committed key (must fail: the statement is false)
      let r = rs(&mut rng);
      let (t2, t3) = (r * g, r * m);
      let c = challenge(&[&pkv, &m, &z, &t2, &t3]);
      attempts.push(("full-transcript-false-statement", mk(c, r - c * k, &w)));
      // (E) composites not bound to the points: proof of the TRUE statement re-used for the false output
      let (m0, z0) = composites(&pkv, &w_true, &p);
      let r = rs(&mut rng);
      let c = challenge(&[&pkv, &m0, &z0, &(r * g), &(r * m0)]);
      attempts.push(("proof-of-true-statement-with-false-output", mk(c, r - c * k, &w)));
      for (aname, ev) in attempts {
        let ev = match ev {
          Some(e) => e,
          None => continue,
        };
        rep.evaluations += 1;
        rep.nontrivial(format!("{i}:{wname}:{aname}"));
        if matches!(guard(|| Client::verify(&pk, &req, &ev, md)), Guard::Done(true)) {
          rep.violation("C13", "Client::verify", &format!("forged-proof-accepted:{aname}"),
            format!("a proof forged by a malicious server for a false statement (output = {wname}) verifies; forgery strategy: {aname}"),
            json!({"output": wname, "strategy": aname, "case": i}));
        }
      }
    }
  }
  rep.count("positive_controls_ok", control_ok);
  rep.sample(json!({"false_outputs": ["evaluation-under-other-tag", "random-point", "request-point-itself"],
    "strategies": ["challenge-without-t3", "challenge-without-t2", "challenge-without-commitments", "full-transcript-false-statement", "proof-of-true-statement-with-false-output"],
    "positive_controls_ok": control_ok}));
  rep.traces = 1;
  rep
}
