//! `vh` — conformance harness binding the TLA+ specifications in /verif/spec to the
//! brave/sta-rs crates built from /repo's working tree.
mod pure;
mod agg;
mod derive;
mod field;
mod ggm;
mod oprf;
mod protocol;
mod shamir;
mod srv;
mod star;
mod star2;
mod util;
mod wire;

use util::*;

fn main() {
  install_quiet_panic_hook();
  let argv: Vec<String> = std::env::args().skip(1).collect();
  if argv.is_empty() {
    eprintln!("usage: vh <subcommand> [--key value]...");
    std::process::exit(2);
  }
  let a = Args::parse(&argv[1..]);
  // An honest operation of the library failing in a way the harness does not expect (e.g. an
  // honestly produced share that no longer decodes) makes the harness itself panic.  On the
  // unchanged tree that never happens; when it does, it is reported as a violation of the
  // property being checked — the library deviated from the behaviour every family relies on —
  // not as a tool error.
  let sub = argv[0].clone();
  let run = std::panic::catch_unwind(std::panic::AssertUnwindSafe(|| dispatch(&sub, &a)));
  let rep = match run {
    Ok(Some(r)) => r,
    Ok(None) => {
      eprintln!("unknown subcommand {sub}");
      std::process::exit(2);
    }
    Err(_) => {
      let prop = a.get("for").or(a.get("prop")).unwrap_or("C00").to_string();
      let mut r = Report::new(&format!("{sub}-aborted"));
      r.evaluations = 1;
      r.violation(
        &prop,
        "harness",
        &format!("harness-aborted:{sub}"),
        format!(
          "the harness could not complete `{sub}`: the library returned something no behaviour of the specification allows for an honest operation ({})",
          last_harness_panic()
        ),
        serde_json::json!({"subcommand": sub, "panic": last_harness_panic()}),
      );
      r
    }
  };
  rep.emit();
}

fn dispatch(sub: &str, a: &Args) -> Option<Report> {
  let a = a;
  Some(match sub {
    "agg-replay" => agg::replay(a),
    "thread-clients" => derive::thread_clients(a),
    "derive-replay" => derive::replay(a),
    "field-record" => field::record(a),
    "shamir-record" => shamir::record(a),
    "cert-record" => shamir::cert(a),
    "ggm-replay" => ggm::replay(a),
    "ggm-record" => ggm::record(a),
    "ggm-pairs" => ggm::pairs(a),
    "ggm-export" => ggm::export(a),
    "ggm-sparse" => ggm::sparse(a),
    "wire-replay" => wire::replay(a),
    "wire-record" => wire::record(a),
    "crash-sweep" => wire::crash_sweep(a),
    "oprf-check" => oprf::oprf_check(a),
    "dleq-replay" => oprf::dleq_replay(a),
    "nonce-check" => oprf::nonce_check(a),
    "dleq-forge" => oprf::dleq_forge(a),
    "proof-complete" => oprf::proof_complete(a),
    "serde-check" => oprf::serde_check(a),
    "protocol-replay" => protocol::replay(a),
    "srv-replay" => srv::replay(a),
    "srv-alltags" => srv::alltags(a),
    "srv-record" => srv::record(a),
    "recover-replay" => star::recover_replay(a),
    "star-record" => star2::record(a),
    "tamper-sweep" => star2::tamper_sweep(a),
    "adss-sizes" => star2::adss_sizes(a),
    "secret-scan" => star2::secret_scan(a),
    "generator-reuse" => star2::generator_reuse(a),
    "length-sweep" => star2::length_sweep(a),
    "cipher-check" => star2::cipher_check(a),
    "nonce-space" => star2::nonce_space(a),
    "purity-record" => pure::record(a),
    _ => return None,
  })
}
