//! Aggregation family (C18): the configurations model-checked in Aggregator.tla are scaled
//! and executed on the real star_test_utils::AggregationServer under rayon pools of
//! different sizes and several input permutations.
use crate::util::*;
use rand::seq::SliceRandom;
use rand::Rng;
use serde_json::{json, Value};
use sta_rs::{AssociatedData, Message, MessageGenerator, SingleMeasurement};
use star_test_utils::AggregationServer;
use std::collections::BTreeMap;

/// `vh agg-replay --lines F --seed S --scale K --pools 1,2,4`
/// populations made (almost) only of groups EXACTLY at the threshold: N groups of t reports, a few
/// single reports, nothing else — expectation straight from the property (Aggregator!Expected:
/// every group with >= t reports, each once, with exactly its associated data)
fn flood(a: &Args, rep: &mut Report) {
  let n = a.u64("flood", 80) as usize;
  let seed = a.u64("seed", 1);
  let mut rng = rng_from(seed, 1919);
  for t in [1u32, 2, 3, 4, 8] {
    for singles in [0usize, 3] {
      let ngroups = n + (t as usize) * 7;
      let mut msgs: Vec<Message> = Vec::new();
      let mut want: BTreeMap<Vec<u8>, Vec<Vec<u8>>> = BTreeMap::new();
      for gi in 0..ngroups + singles {
        let m: Vec<u8> = format!("flood {t} {singles} {gi}").into_bytes();
        let mg = MessageGenerator::new(SingleMeasurement::new(&m), t, b"flood");
        let mut rnd = [0u8; 32];
        mg.sample_local_randomness(&mut rnd);
        let size = if gi < ngroups { t as usize } else { (t as usize).saturating_sub(1).max(1).min(t as usize - (t > 1) as usize) };
        let mut auxes: Vec<Vec<u8>> = Vec::new();
        for i in 0..size {
          let aux = vec![(gi % 251) as u8, (gi / 251) as u8, i as u8, 0x44];
          auxes.push(aux.clone());
          if let Guard::Done(Ok(msg)) = guard(|| Message::generate(&mg, &rnd, Some(AssociatedData::new(&aux)))) {
            msgs.push(msg);
          }
        }
        if size >= t as usize {
          auxes.sort();
          want.insert(m, auxes);
        }
      }
      msgs.shuffle(&mut rng);
      for pool in [1usize, 4, 16] {
        let agg = AggregationServer::new(t, "flood");
        let tp = rayon::ThreadPoolBuilder::new().num_threads(pool).build().expect("pool");
        rep.evaluations += 1;
        let ctx = json!({"population": "exact-threshold flood", "threshold": t, "groups": ngroups, "single_reports": singles, "reports": msgs.len(), "pool": pool});
        let outs = match guard(|| tp.install(|| agg.retrieve_outputs(&msgs))) {
          Guard::Done(o) => o,
          Guard::Panic(m) => {
            rep.violation("C18", "AggregationServer::retrieve_outputs", "panic", format!("retrieve_outputs panicked: {m:.120}"), ctx);
            continue;
          }
        };
        let mut got: BTreeMap<Vec<u8>, Vec<Vec<u8>>> = BTreeMap::new();
        let mut dup = false;
        for o in outs {
          let mut auxes: Vec<Vec<u8>> = o.aux.iter().map(|a| a.as_ref().map(|x| x.as_vec()).unwrap_or_default()).collect();
          auxes.sort();
          dup |= got.insert(o.x.as_vec(), auxes).is_some();
        }
        if got != want || dup {
          let missing = want.keys().filter(|k| !got.contains_key(*k)).count();
          let extra = got.keys().filter(|k| !want.contains_key(*k)).count();
          rep.violation("C18", "AggregationServer::retrieve_outputs",
            if extra > 0 { "below-threshold-revealed" } else if missing > 0 { "measurement-missing" } else { "aux-multiset-differs" },
            format!("flood of groups exactly at the threshold: {missing} of {} measurements missing, {extra} unexpected, duplicates={dup}", want.len()), ctx);
        } else {
          rep.nontrivial(format!("flood:{t}:{singles}:{pool}"));
        }
      }
    }
  }
  rep.traces += 1;
}

pub fn replay(a: &Args) -> Report {
  let mut rep = Report::new("agg-replay");
  if a.get("flood").is_some() {
    flood(a, &mut rep);
    return rep;
  }
  let seed = a.u64("seed", 1);
  let scale = a.u64("scale", 3) as usize;
  let pools: Vec<usize> = a.str("pools", "1,2,3,4,8,16").split(',').filter_map(|s| s.parse().ok()).collect();
  let perms = a.u64("perms", 3);
  let mut rng = rng_from(seed, 1818);
  for (li, l) in read_lines(a.get("lines").expect("--lines")).iter().enumerate() {
    let v: Value = serde_json::from_str(l).expect("line");
    let sizes: Vec<usize> = v["sizes"].as_array().unwrap().iter().map(|x| x.as_u64().unwrap() as usize).collect();
    let expect: Vec<bool> = v["expect"].as_array().unwrap().iter().map(|x| x.as_u64().unwrap() == 1).collect();
    let t = v["threshold"].as_u64().unwrap() as u32;
    let epoch = ["t", "", "epoch-é"][li % 3];
    let mut msgs: Vec<Message> = Vec::new();
    // expected: measurement -> sorted list of aux byte strings (absent == empty)
    let mut want: BTreeMap<Vec<u8>, Vec<Vec<u8>>> = BTreeMap::new();
    // special populations (once per configuration, at the small scale): one very large bucket
    // (> 255 reports) and a bucket whose clients attach IDENTICAL associated data
    if scale <= 3 {
      for (gname, n, same_aux) in [("large-bucket", 300usize, false), ("identical-aux", (t as usize) + 2, true)] {
        let m: Vec<u8> = format!("special {gname} {li}").into_bytes();
        let mg = MessageGenerator::new(SingleMeasurement::new(&m), t, epoch.as_bytes());
        let mut rnd = [0u8; 32];
        mg.sample_local_randomness(&mut rnd);
        let mut auxes: Vec<Vec<u8>> = Vec::new();
        for i in 0..n {
          let aux: Vec<u8> = if same_aux { b"same for everyone".to_vec() } else { vec![(i % 251) as u8, (i / 251) as u8, 7] };
          auxes.push(aux.clone());
          if let Guard::Done(Ok(msg)) = guard(|| Message::generate(&mg, &rnd, Some(AssociatedData::new(&aux)))) {
            msgs.push(msg);
          }
        }
        auxes.sort();
        want.insert(m, auxes);
      }
    }
    // a flood of groups EXACTLY at the threshold (a frequent-items pre-filter sized for "more than
    // len/k" instead of "at least t" drops precisely these), next to a few single reports
    if scale <= 5 && li % 2 == 1 {
      let ngroups = 70 + 10 * (li % 3);
      for gi in 0..ngroups {
        let m: Vec<u8> = format!("flood {li} {gi}").into_bytes();
        let mg = MessageGenerator::new(SingleMeasurement::new(&m), t, epoch.as_bytes());
        let mut rnd = [0u8; 32];
        mg.sample_local_randomness(&mut rnd);
        let n = if gi % 23 == 22 { 1 } else { (t as usize).max(1) };
        let mut auxes: Vec<Vec<u8>> = Vec::new();
        for i in 0..n {
          let aux = vec![gi as u8, i as u8, 0x33];
          auxes.push(aux.clone());
          if let Guard::Done(Ok(msg)) = guard(|| Message::generate(&mg, &rnd, Some(AssociatedData::new(&aux)))) {
            msgs.push(msg);
          }
        }
        if n >= t as usize && n > 0 {
          auxes.sort();
          want.insert(m, auxes);
        }
      }
    }
    // payload shapes (once per configuration, at the small scale): short measurements next to
    // associated data of complementary lengths (|m| + |aux| = 28, 32, 52, 64: sizes at which a
    // payload could be mistaken for another shape), absent, empty and long associated data mixed
    // in one bucket
    if scale <= 5 && li % 2 == 0 {
      for lm in [0usize, 1, 4, 11, 20, 24, 27, 28, 31, 32, 33] {
        let m: Vec<u8> = (0..lm).map(|i| (i as u8).wrapping_mul(31).wrapping_add(li as u8)).collect();
        let mg = MessageGenerator::new(SingleMeasurement::new(&m), t, epoch.as_bytes());
        let mut rnd = [0u8; 32];
        mg.sample_local_randomness(&mut rnd);
        let mut shapes: Vec<Option<usize>> = vec![None, Some(0), Some(1), Some(166)];
        for total in [28usize, 32, 36, 52, 64] {
          if total >= lm {
            shapes.push(Some(total - lm));
          }
        }
        while shapes.len() < t as usize {
          shapes.push(Some(7));
        }
        let mut auxes: Vec<Vec<u8>> = Vec::new();
        for (i, sh) in shapes.iter().enumerate() {
          let aux: Option<Vec<u8>> = sh.map(|n| (0..n).map(|j| (j as u8) ^ (i as u8) ^ 0x5a).collect());
          auxes.push(aux.clone().unwrap_or_default());
          if let Guard::Done(Ok(msg)) = guard(|| Message::generate(&mg, &rnd, aux.as_ref().map(|a| AssociatedData::new(a)))) {
            msgs.push(msg);
          }
        }
        auxes.sort();
        want.insert(m, auxes);
      }
    }
    for k in 0..scale {
      for (g, n) in sizes.iter().enumerate() {
        let lm = [1usize, 20, 32, 200][(g + k) % 4];
        let mut m: Vec<u8> = (0..lm).map(|_| rng.gen()).collect();
        m.extend((k as u32).to_le_bytes());
        m.push(g as u8);
        let mg = MessageGenerator::new(SingleMeasurement::new(&m), t, epoch.as_bytes());
        let mut rnd = [0u8; 32];
        mg.sample_local_randomness(&mut rnd);
        let mut auxes: Vec<Vec<u8>> = Vec::new();
        for i in 0..*n {
          let aux: Option<Vec<u8>> = match i {
            0 => None,
            1 => Some(vec![]),
            _ => Some((0..(i * 37 % 300 + 1)).map(|_| rng.gen()).collect()),
          };
          auxes.push(aux.clone().unwrap_or_default());
          match guard(|| Message::generate(&mg, &rnd, aux.as_ref().map(|a| AssociatedData::new(a)))) {
            Guard::Done(Ok(msg)) => msgs.push(msg),
            _ => rep.violation("C18", "Message::generate", "generation-failed", "client could not report".into(), json!({"line": li})),
          }
        }
        if expect[g] {
          auxes.sort();
          want.insert(m, auxes);
        }
      }
    }
    for pool in &pools {
      for p in 0..perms {
        let mut input = msgs.clone();
        if p > 0 {
          input.shuffle(&mut rng);
        }
        if p == 2 {
          input.reverse();
        }
        let agg = AggregationServer::new(t, epoch);
        let tp = rayon::ThreadPoolBuilder::new().num_threads(*pool).build().expect("pool");
        rep.evaluations += 1;
        let ctx = json!({"sizes": sizes, "threshold": t, "scale": scale, "pool": pool, "permutation": p, "epoch": epoch});
        let res = guard(|| tp.install(|| agg.retrieve_outputs(&input)));
        let outs = match res {
          Guard::Done(o) => o,
          Guard::Panic(m) => {
            rep.violation("C18", "AggregationServer::retrieve_outputs", "panic",
              format!("retrieve_outputs panicked: {m:.120}"), ctx.clone());
            continue;
          }
        };
        let mut got: BTreeMap<Vec<u8>, Vec<Vec<u8>>> = BTreeMap::new();
        let mut dup = false;
        for o in outs {
          let mut auxes: Vec<Vec<u8>> = o.aux.iter().map(|a| a.as_ref().map(|x| x.as_vec()).unwrap_or_default()).collect();
          auxes.sort();
          if got.insert(o.x.as_vec(), auxes).is_some() {
            dup = true;
          }
        }
        rep.nontrivial(format!("{li}:{pool}:{p}"));
        // the same server object asked again gives the same answer (no state carried between calls)
        if p == 0 {
          if let Guard::Done(o2) = guard(|| tp.install(|| agg.retrieve_outputs(&input))) {
            let mut again: BTreeMap<Vec<u8>, Vec<Vec<u8>>> = BTreeMap::new();
            for o in o2 {
              let mut auxes: Vec<Vec<u8>> = o.aux.iter().map(|a| a.as_ref().map(|x| x.as_vec()).unwrap_or_default()).collect();
              auxes.sort();
              again.insert(o.x.as_vec(), auxes);
            }
            if again != got {
              rep.violation("C18", "AggregationServer::retrieve_outputs", "second-call-differs",
                "calling retrieve_outputs twice on the same server and input gives different outputs".into(), ctx.clone());
            }
          }
        }
        if dup {
          rep.violation("C18", "AggregationServer::retrieve_outputs", "measurement-twice",
            "a measurement was output more than once".into(), ctx.clone());
        }
        if got != want {
          let missing = want.keys().filter(|k| !got.contains_key(*k)).count();
          let extra = got.keys().filter(|k| !want.contains_key(*k)).count();
          let wrong_aux = want.iter().filter(|(k, v)| got.get(*k).map(|g| g != *v).unwrap_or(false)).count();
          let class = if extra > 0 { "below-threshold-revealed" } else if missing > 0 { "measurement-missing" } else { "aux-multiset-differs" };
          rep.violation("C18", "AggregationServer::retrieve_outputs", class,
            format!("output differs from the specification: {missing} missing, {extra} unexpected, {wrong_aux} with a wrong associated-data multiset"),
            ctx.clone());
        }
      }
    }
    rep.traces += 1;
    if rep.samples.len() < 4 {
      rep.sample(json!({"model_sizes": sizes, "threshold": t, "groups_built": sizes.len() * scale, "reports": msgs.len(),
        "pools": pools, "permutations": perms, "expected_outputs": want.len()}));
    }
  }
  rep
}
