//! History independence of the deterministic part of the public API (Trace_Pure):
//! every call is a function of its arguments — never of what was called before, on which
//! thread, or how often.  A pool of calls (accepted base cases and near-duplicates that differ
//! in ONE argument component) is executed several times in different orders on several threads;
//! every execution is logged as (call id, result digest, demanded result) and TLC validates the
//! log against a memo table: same call => same result, and a demanded result is the result.
//! A cache keyed on part of the arguments, a thread-local fast path or a stateful object shows up
//! as two different results for one call id.
use crate::star::{make_client, ClientCfg};
use crate::util::*;
use base64::prelude::*;
use ppoprf::ppoprf::{Client as OprfClient, Evaluation, Point, Server as OprfServer, ServerPublicKey};
use rand::seq::SliceRandom;
use serde_json::json;
use sta_rs::{derive_ske_key, share_recover, strobe_digest, MessageGenerator, Share, SingleMeasurement};
use std::io::Write;

type Call = (String, &'static str, Box<dyn Fn() -> String + Send + Sync>);

fn hx(b: &[u8]) -> String {
  // FNV-1a 64 of the bytes plus the length: short, stable, collision-free for this purpose
  let mut h: u64 = 0xcbf29ce484222325;
  for x in b {
    h ^= *x as u64;
    h = h.wrapping_mul(0x100000001b3);
  }
  format!("{:016x}:{}", h, b.len())
}

fn g<F: Fn() -> Option<Vec<u8>> + std::panic::RefUnwindSafe>(f: F) -> String {
  match guard(&f) {
    Guard::Done(Some(b)) => hx(&b),
    Guard::Done(None) => "none".into(),
    Guard::Panic(_) => "panic".into(),
  }
}

fn flip(b: &[u8], pos: usize) -> Vec<u8> {
  let mut v = b.to_vec();
  if !v.is_empty() {
    let p = pos % v.len();
    v[p] ^= 1;
  }
  v
}

/// the calls relevant to one property
fn pool(pid: &str, seed: u64, rep: &mut Report) -> Vec<Call> {
  let mut calls: Vec<Call> = Vec::new();
  let mut rng = rng_from(seed, 31337);
  let oprf = OprfServer::new(vec![0, 1, 7, 255]).expect("oprf");
  let oprf2 = OprfServer::new(vec![0, 1, 7, 255]).expect("oprf");
  // ---- derivations (C04) ----
  if pid == "C04" || pid == "all" {
    let triples: Vec<(Vec<u8>, Vec<u8>, u32)> = vec![
      (b"ab".to_vec(), b"c".to_vec(), 2), (b"a".to_vec(), b"bc".to_vec(), 2), (b"abc".to_vec(), vec![], 2), (vec![], b"abc".to_vec(), 2),
      (b"ab".to_vec(), b"c".to_vec(), 3), (b"ab".to_vec(), b"c".to_vec(), 258), (b"ab".to_vec(), b"c".to_vec(), 2 + (1 << 16)),
      (vec![0u8; 166], vec![0u8; 8], 2), (vec![0u8; 167], vec![0u8; 7], 2), (vec![], vec![], 1),
    ];
    for (i, (m, e, t)) in triples.into_iter().enumerate() {
      let (m1, e1) = (m.clone(), e.clone());
      calls.push((format!("local-randomness:{i}"), "", Box::new(move || g(|| {
        let mg = MessageGenerator::new(SingleMeasurement::new(&m1), t, &e1);
        let mut r = [0u8; 32];
        mg.sample_local_randomness(&mut r);
        Some(r.to_vec())
      }))));
      let (m2, e2) = (m.clone(), e.clone());
      calls.push((format!("key-and-tag:{i}"), "", Box::new(move || g(|| {
        let mg = MessageGenerator::new(SingleMeasurement::new(&m2), t, &e2);
        let w = mg.share_with_local_randomness().ok()?;
        let mut v = w.key.to_vec();
        v.extend(w.tag);
        Some(v)
      }))));
      let (m3, e3) = (m.clone(), e.clone());
      calls.push((format!("ske-key:{i}"), "", Box::new(move || g(|| {
        let mut k = vec![0u8; 16];
        let mut r = [0u8; 32];
        let n = m3.len().min(32);
        r[..n].copy_from_slice(&m3[..n]);
        derive_ske_key(&r, &e3, &mut k);
        Some(k)
      }))));
      let (m4, e4) = (m.clone(), e.clone());
      calls.push((format!("digest:{i}"), "", Box::new(move || g(|| {
        let mut out = [0u8; 32];
        strobe_digest(&m4, &[&e4, &t.to_le_bytes()], "verif purity", &mut out);
        Some(out.to_vec())
      }))));
    }
  }
  // ---- recovery and decryption (C05; the honest collections also serve C01) ----
  if pid == "C05" || pid == "C01" || pid == "all" {
    let mk = |m: &[u8], t: u32, aux: Option<Vec<u8>>, rep: &mut Report| make_client(ClientCfg { m: m.to_vec(), e: b"ep".to_vec(), t, aux, src: "local".into() }, &oprf, rep);
    let a: Vec<_> = (0..4).filter_map(|i| mk(b"measurement A", 2, Some(vec![i as u8; 40]), rep)).collect();
    let b: Vec<_> = (0..4).filter_map(|i| mk(b"measurement B", 3, if i % 2 == 0 { None } else { Some(vec![9; 3]) }, rep)).collect();
    if a.len() == 4 && b.len() == 4 {
      let lay = crate::star::layout(&a[0].share_bytes).expect("layout");
      let sa: Vec<Vec<u8>> = a.iter().map(|c| c.share_bytes.clone()).collect();
      let sb: Vec<Vec<u8>> = b.iter().map(|c| c.share_bytes.clone()).collect();
      let mut sels: Vec<(String, Vec<Vec<u8>>, &'static str)> = vec![
        ("A01".into(), vec![sa[0].clone(), sa[1].clone()], "some"),
        ("A10".into(), vec![sa[1].clone(), sa[0].clone()], "some"),
        ("A23".into(), vec![sa[2].clone(), sa[3].clone()], "some"),
        ("A0".into(), vec![sa[0].clone()], "none"),
        ("A00".into(), vec![sa[0].clone(), sa[0].clone()], "none"),
        ("B012".into(), vec![sb[0].clone(), sb[1].clone(), sb[2].clone()], "some"),
        ("B01".into(), vec![sb[0].clone(), sb[1].clone()], "none"),
        ("B0A0".into(), vec![sb[0].clone(), sa[0].clone()], "none"),
      ];
      // near-duplicates of an accepted collection: ONE field of the first share altered
      for (name, range) in [("thr", (0usize, 4usize)), ("x", (lay.s.0, lay.s.0 + 16)), ("y", (lay.s.0 + 24, lay.s.0 + 40)), ("C", lay.c), ("D", lay.d), ("J", lay.j)] {
        if range.1 > range.0 {
          let mut first = sa[0].clone();
          first[range.0 + (seed as usize % (range.1 - range.0))] ^= 1;
          sels.push((format!("A0'{name}1"), vec![first, sa[1].clone()], "none"));
        }
      }
      // ... and of the second share (the outcome is an error or the genuine message: no demand)
      for (name, range) in [("C", lay.c), ("J", lay.j)] {
        if range.1 > range.0 {
          let mut second = sa[1].clone();
          second[range.0] ^= 1;
          sels.push((format!("A01'{name}"), vec![sa[0].clone(), second], ""));
        }
      }
      for (name, sel, want) in sels {
        if pid == "C01" && want != "some" {
          continue;
        }
        calls.push((format!("recover:{name}"), if want == "some" { "some" } else if want == "none" { "none" } else { "" }, Box::new(move || {
          let r = guard(|| {
            let dec: Option<Vec<Share>> = sel.iter().map(|s| Share::from_bytes(s)).collect();
            dec.and_then(|d| share_recover(&d).ok().map(|c| c.get_message()))
          });
          match r {
            Guard::Done(Some(m)) => format!("some:{}", hx(&m)),
            Guard::Done(None) => "none".into(),
            Guard::Panic(_) => "panic".into(),
          }
        })));
      }
      // decryption of each report under its own key, a neighbour's key, a flipped key
      for (i, c) in a.iter().chain(b.iter()).enumerate() {
        let ct = c.ct.clone();
        let key = c.key.map(|k| k.to_vec()).unwrap_or_default();
        for (kn, k) in [("own", key.clone()), ("flip", flip(&key, i)), ("other", a[(i + 1) % 4].key.map(|k| k.to_vec()).unwrap_or_default())] {
          let ct2 = ct.clone();
          calls.push((format!("decrypt:{i}:{kn}"), "", Box::new(move || g(|| Some(sta_rs::Ciphertext::from_bytes(&ct2).decrypt(&k, "star_encrypt"))))));
        }
      }
    }
  }
  // ---- the randomness server and its client (C12, C13) ----
  if pid == "C12" || pid == "C13" || pid == "all" {
    let pk = oprf.get_public_key();
    let pk2 = oprf2.get_public_key();
    let pkb = pk.serialize_to_bincode().expect("pk");
    let pk2b = pk2.serialize_to_bincode().expect("pk");
    let inputs: Vec<Vec<u8>> = vec![b"input one".to_vec(), b"input two".to_vec(), vec![]];
    let mut reqs: Vec<(Point, ppoprf::ppoprf::CurveScalar)> = Vec::new();
    for i in &inputs {
      reqs.push(OprfClient::blind(i));
      reqs.push(OprfClient::blind(i));
    }
    // verifiable evaluations (each carries its own proof: fixed once, then only CHECKED repeatedly)
    let mut evs: Vec<(usize, u8, Vec<u8>, Option<Vec<u8>>)> = Vec::new(); // (request, tag, output, proof)
    for (ri, (p, _)) in reqs.iter().enumerate() {
      for md in [0u8, 7] {
        if let Ok(ev) = oprf.eval(p, md, true) {
          evs.push((ri, md, ev.output.as_bytes().to_vec(), ev.proof.as_ref().and_then(|p| p.serialize_to_bincode().ok())));
        }
      }
    }
    let req_bytes: Vec<Vec<u8>> = reqs.iter().map(|(p, _)| p.as_bytes().to_vec()).collect();
    let verify_call = |pkbytes: Vec<u8>, req: Vec<u8>, out: Vec<u8>, proof: Option<Vec<u8>>, md: u8| -> Box<dyn Fn() -> String + Send + Sync> {
      Box::new(move || {
        let r = guard(|| {
          let pk = ServerPublicKey::load_from_bincode(&pkbytes).ok()?;
          let proof = match &proof {
            Some(b) => Some(ppoprf::ppoprf::ProofDLEQ::load_from_bincode(b).ok()?),
            None => None,
          };
          let ev = Evaluation { output: Point::from(&out[..]), proof };
          Some(OprfClient::verify(&pk, &Point::from(&req[..]), &ev, md))
        });
        match r {
          Guard::Done(Some(true)) => "T".into(),
          Guard::Done(Some(false)) => "F".into(),
          Guard::Done(None) => "undecodable".into(),
          Guard::Panic(_) => "panic".into(),
        }
      })
    };
    if pid != "C12" {
      for (ei, (ri, md, out, proof)) in evs.iter().enumerate() {
        calls.push((format!("verify:{ei}:honest"), "T", verify_call(pkb.clone(), req_bytes[*ri].clone(), out.clone(), proof.clone(), *md)));
        // ONE component replaced by another honest value of the same type
        let other_req = req_bytes[(*ri + 1) % req_bytes.len()].clone();
        calls.push((format!("verify:{ei}:other-request"), "F", verify_call(pkb.clone(), other_req, out.clone(), proof.clone(), *md)));
        calls.push((format!("verify:{ei}:other-tag"), "F", verify_call(pkb.clone(), req_bytes[*ri].clone(), out.clone(), proof.clone(), if *md == 0 { 7 } else { 0 })));
        calls.push((format!("verify:{ei}:other-server-key"), "F", verify_call(pk2b.clone(), req_bytes[*ri].clone(), out.clone(), proof.clone(), *md)));
        let (_, _, out2, proof2) = &evs[(ei + 2) % evs.len()];
        calls.push((format!("verify:{ei}:other-output"), "F", verify_call(pkb.clone(), req_bytes[*ri].clone(), out2.clone(), proof.clone(), *md)));
        calls.push((format!("verify:{ei}:other-proof"), "F", verify_call(pkb.clone(), req_bytes[*ri].clone(), out.clone(), proof2.clone(), *md)));
      }
    }
    // plain evaluation is a function of (key, tag, point); so are unblinding and finalisation
    let srv = std::sync::Arc::new(oprf.clone());
    let srv2 = std::sync::Arc::new(oprf2.clone());
    for (ri, rb) in req_bytes.iter().enumerate() {
      for md in [0u8, 1, 7, 255, 3] {
        for (sn, s) in [("s1", srv.clone()), ("s2", srv2.clone())] {
          let rb2 = rb.clone();
          calls.push((format!("eval:{sn}:{ri}:{md}"), if md == 3 { "none" } else { "" }, Box::new(move || {
            match guard(|| s.eval(&Point::from(&rb2[..]), md, false).ok().map(|e| e.output.as_bytes().to_vec())) {
              Guard::Done(Some(b)) => format!("some:{}", hx(&b)),
              Guard::Done(None) => "none".into(),
              Guard::Panic(_) => "panic".into(),
            }
          })));
        }
      }
    }
    for (ri, (_, r)) in reqs.iter().enumerate() {
      // the unblinded, finalised output for input ri/2 under tags 0 and 7: equal for both requests of an input
      for md in [0u8, 7] {
        if let Ok(ev) = oprf.eval(&reqs[ri].0, md, false) {
          let unb = OprfClient::unblind(&ev.output, r);
          let ub = unb.as_bytes().to_vec();
          let input = inputs[ri / 2].clone();
          // (id names the INPUT, not the request: both requests of one input must agree)
          calls.push((format!("finalize:{}:{md}", ri / 2), "", Box::new(move || g(|| {
            let mut out = [0u8; 32];
            OprfClient::finalize(&input, md, &Point::from(&ub[..]), &mut out);
            Some(out.to_vec())
          }))));
        }
      }
    }
  }
  // ---- the WASM grouping call (C17) ----
  if pid == "C17" || pid == "all" {
    let mut mk = |m: &[u8], t: u32, e: &str| -> Option<(String, String)> {
      let js = guard(|| star_wasm::create_share(m, t, e)).ok()?;
      let v: serde_json::Value = serde_json::from_str(&js).ok()?;
      Some((v["share"].as_str()?.to_string(), v["key"].as_str()?.to_string()))
    };
    let a: Vec<_> = (0..3).filter_map(|_| mk(b"wasm A", 2, "e1")).collect();
    let b: Vec<_> = (0..3).filter_map(|_| mk(b"wasm B", 3, "e1")).collect();
    if a.len() == 3 && b.len() == 3 {
      let lists: Vec<(String, String, String, String)> = vec![
        ("A01:e1".into(), format!("{}\n{}", a[0].0, a[1].0), "e1".into(), a[0].1.clone()),
        ("A12:e1".into(), format!("{}\n{}", a[1].0, a[2].0), "e1".into(), a[0].1.clone()),
        ("A01:e2".into(), format!("{}\n{}", a[0].0, a[1].0), "e2".into(), "!".into()),
        ("A0:e1".into(), a[0].0.clone(), "e1".into(), "none".into()),
        ("A00:e1".into(), format!("{}\n{}", a[0].0, a[0].0), "e1".into(), "none".into()),
        ("B012:e1".into(), format!("{}\n{}\n{}", b[0].0, b[1].0, b[2].0), "e1".into(), b[0].1.clone()),
        ("B01:e1".into(), format!("{}\n{}", b[0].0, b[1].0), "e1".into(), "none".into()),
        ("B0A0:e1".into(), format!("{}\n{}", b[0].0, a[0].0), "e1".into(), "none".into()),
      ];
      // batches that must be refused — undecodable lines in several shapes; what matters is that
      // they leave nothing behind for the next call on the thread
      let bad: Vec<(String, String)> = vec![
        ("crlf".into(), format!("{}\r\n{}", a[0].0, a[1].0)),
        ("stray-char".into(), format!("{}\n{}!", a[0].0, a[1].0)),
        ("broken-padding".into(), format!("{}\n{}=", a[0].0, a[1].0.trim_end_matches('='))),
        ("garbage-first".into(), format!("%%%%\n{}\n{}", a[0].0, a[1].0)),
        ("half-a-share".into(), a[0].0[..a[0].0.len() / 2].to_string()),
        ("empty".into(), String::new()),
      ];
      for (name, list) in bad {
        let akey = a[0].1.clone();
        calls.push((format!("group-bad:{name}"), "", Box::new(move || {
          match guard(|| star_wasm::group_shares(&list, "e1")) {
            // (a lenient reader may accept some of these shapes — then it must return the clients' key)
            Guard::Done(Some(k)) => if k == akey { format!("some:{k}") } else { format!("WRONG:{k}") },
            Guard::Done(None) => "none".into(),
            Guard::Panic(_) => "panic".into(),
          }
        })));
      }
      for (name, list, epoch, want) in lists {
        // want: the key every contributing client holds / "none" / "!" (anything but the clients' key)
        let akey = a[0].1.clone();
        calls.push((format!("group:{name}"), "", Box::new(move || {
          match guard(|| star_wasm::group_shares(&list, &epoch)) {
            Guard::Done(Some(k)) => {
              if want == "none" || (want == "!" && k == akey) || (want != "!" && want != "none" && k != want) { format!("WRONG:{k}") } else { format!("some:{k}") }
            }
            Guard::Done(None) => if want == "none" || want == "!" { "none".into() } else { "WRONG:none".into() },
            Guard::Panic(_) => "panic".into(),
          }
        })));
      }
    }
    let _ = BASE64_STANDARD.encode([0u8]);
  }
  calls.shuffle(&mut rng);
  calls
}

/// `vh purity-record --out F --seed S --for Cxx [--rounds N]`
pub fn record(a: &Args) -> Report {
  let pid = a.str("for", "all");
  let mut rep = Report::new(&format!("purity-record-{pid}"));
  let seed = a.u64("seed", 1);
  let rounds = a.u64("rounds", 3) as usize;
  let out = a.get("out").expect("--out");
  let calls = pool(&pid, seed, &mut rep);
  let n = calls.len();
  let mut events: Vec<(usize, usize, String)> = Vec::new(); // (thread, call index, result)
  // two threads run their own shuffles concurrently, each call `rounds` times; then the main thread
  let mk_order = |salt: u64| -> Vec<usize> {
    let mut rng = rng_from(seed, 500 + salt);
    let mut o: Vec<usize> = (0..n).flat_map(|i| std::iter::repeat(i).take(rounds)).collect();
    o.shuffle(&mut rng);
    o
  };
  let calls_ref = &calls;
  let results: Vec<Vec<(usize, usize, String)>> = std::thread::scope(|s| {
    let hs: Vec<_> = (1..=2usize)
      .map(|th| {
        let order = mk_order(th as u64);
        s.spawn(move || order.into_iter().map(|i| (th, i, (calls_ref[i].2)())).collect::<Vec<_>>())
      })
      .collect();
    hs.into_iter().map(|h| h.join().unwrap_or_default()).collect()
  });
  for r in results {
    events.extend(r);
  }
  for i in mk_order(9) {
    events.push((0, i, (calls[i].2)()));
  }
  let mut f = std::io::BufWriter::new(std::fs::File::create(out).expect("create"));
  for (th, i, res) in &events {
    let cls = if res.starts_with("some:") { "some" } else if res.starts_with("WRONG") { "WRONG" }
      else if ["T", "F", "none", "panic", "undecodable"].contains(&res.as_str()) { res.as_str() } else { "val" };
    writeln!(f, "{}", json!({"ev":"Call","id":calls[*i].0,"want":calls[*i].1,"res":res,"cls":cls,"thr":th})).unwrap();
    rep.evaluations += 1;
    rep.nontrivial(calls[*i].0.clone());
  }
  f.flush().unwrap();
  rep.count("distinct_calls", n as u64);
  rep.count("executions", events.len() as u64);
  rep.sample(json!({"calls": n, "executions_per_call": rounds * 3, "threads": 3}));
  rep.traces = 1;
  rep
}
