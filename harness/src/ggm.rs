//! GGM family (C10, C11): replay of TLC's state/transition table into the real key
//! (binding A) and recording of long puncture histories for trace validation (binding B).
use crate::util::*;
use ppoprf::ggm::GGM;
use ppoprf::ppoprf::{Server, ServerKeyState};
use ppoprf::PPRF;
use rand::seq::SliceRandom;
use rand::Rng;
use serde_json::{json, Value};
use std::collections::{BTreeSet, HashMap, HashSet};
use std::io::Write;

/// Ground truth taken from the *fresh* key: value of every input, seed of every tree node.
pub struct Fresh {
  pub vals: Vec<Vec<u8>>,
  pub val_id: HashMap<Vec<u8>, usize>,
  pub seeds: HashMap<(usize, u32), Vec<u8>>,
}

pub fn node_path(k: usize, v: u32) -> Vec<bool> {
  (0..k).map(|i| (v >> i) & 1 == 1).collect()
}

pub fn bits_to_node(bits: &[bool]) -> (usize, u32) {
  let mut v = 0u32;
  for (i, b) in bits.iter().enumerate() {
    if *b {
      v |= 1 << i;
    }
  }
  (bits.len(), v)
}

pub fn fresh_truth(g: &GGM, rep: &mut Report) -> Fresh {
  let mut vals = Vec::new();
  let mut val_id = HashMap::new();
  // (a key handed out by a server may already have retired inputs on its own: they have no value)
  let retired = logged_set(g);
  for x in 0..256usize {
    if retired.contains(&(x as u8)) {
      vals.push(Vec::new());
      continue;
    }
    let mut out = vec![0u8; 32];
    let r = guard(|| g.eval(&[x as u8], &mut out));
    rep.evaluations += 1;
    match r {
      Guard::Done(Ok(())) => {}
      _ => rep.violation(
        "C10",
        "GGM::eval",
        "fresh-key",
        format!("fresh key refuses input {x}"),
        json!({"history": [], "x": x}),
      ),
    }
    if let Some(prev) = val_id.insert(out.clone(), x) {
      rep.violation(
        "C10",
        "GGM::eval",
        "distinct-values",
        format!("inputs {prev} and {x} evaluate to the same value on a fresh key"),
        json!({"history": [], "x": x, "y": prev}),
      );
    }
    vals.push(out);
  }
  let mut seeds = HashMap::new();
  // (level 0: an implementation may keep the root itself until the first puncture)
  for k in 0..=8usize {
    for v in 0..(1u32 << k) {
      if let Some(s) = g.verif_node_seed(&node_path(k, v)) {
        seeds.insert((k, v), s);
      }
    }
  }
  Fresh { vals, val_id, seeds }
}

fn eval1(g: &GGM, x: u8) -> Option<Vec<u8>> {
  let mut out = vec![0u8; 32];
  match guard(|| g.eval(&[x], &mut out)) {
    Guard::Done(Ok(())) => Some(out),
    _ => None,
  }
}

/// Forbidden seeds: fresh-key seeds of every ancestor-or-self of a punctured leaf.
fn forbidden(fr: &Fresh, p: &BTreeSet<u8>) -> HashSet<Vec<u8>> {
  let mut f = HashSet::new();
  for x in p {
    for k in 0..=8usize {
      let v = (*x as u32) & ((1u32 << k) - 1);
      if let Some(s) = fr.seeds.get(&(k, v)) {
        f.insert(s.clone());
      }
    }
  }
  f
}

/// C11 predicate on the key material actually retained (through the hook).
pub fn check_retained(
  g: &GGM,
  fr: &Fresh,
  p: &BTreeSet<u8>,
  hist: &[u8],
  rep: &mut Report,
  ctx: &str,
) -> Vec<(usize, u32)> {
  let nodes = g.verif_retained_nodes();
  let forb = forbidden(fr, p);
  let mut cover_count = [0u32; 256];
  let mut ids = Vec::new();
  for (bits, covered, seed) in &nodes {
    ids.push(bits_to_node(bits));
    for x in covered {
      cover_count[*x as usize] += 1;
    }
    if forb.contains(seed) {
      rep.violation(
        "C11",
        "GGM retained nodes",
        &format!("{ctx}:seed-on-punctured-path"),
        format!(
          "retained node {:?} holds a seed on the path to a punctured input",
          bits_to_node(bits)
        ),
        json!({"history": hist, "node": [bits_to_node(bits).0, bits_to_node(bits).1]}),
      );
    }
    // a retained node must not sit on the path to a punctured input either
    for x in p {
      let (k, v) = bits_to_node(bits);
      if (*x as u32) & ((1u32 << k) - 1) == v {
        rep.violation(
          "C11",
          "GGM retained nodes",
          &format!("{ctx}:node-covers-punctured"),
          format!("retained node ({k},{v}) covers punctured input {x}"),
          json!({"history": hist, "node": [k, v], "x": x}),
        );
      }
    }
  }
  // C11: nothing covers a punctured input; every other input is still covered — by at least one
  // retained node (an implementation may keep a non-minimal or overlapping cover, e.g. leaf values
  // it has cached for live inputs: that retains nothing about punctured ones)
  for x in 0..256usize {
    let dead = p.contains(&(x as u8));
    if (dead && cover_count[x] != 0) || (!dead && cover_count[x] == 0) {
      let want = if dead { 0 } else { 1 };
      rep.violation(
        "C11",
        "GGM retained nodes",
        &format!("{ctx}:cover"),
        format!(
          "input {x} is covered by {} retained nodes, expected {}{want}",
          cover_count[x],
          if dead { "" } else { "at least " }
        ),
        json!({"history": hist, "x": x}),
      );
      break;
    }
  }
  rep.evaluations += 1;
  ids
}

struct StateRec {
  succ: Vec<(u8, bool)>,
  live: Vec<u8>,
  dead: Vec<u8>,
  nodes: BTreeSet<(usize, u32)>,
}

fn key_of(p: &BTreeSet<u8>) -> String {
  p.iter().map(|x| x.to_string()).collect::<Vec<_>>().join(",")
}

fn load_states(path: &str) -> HashMap<String, StateRec> {
  let mut m = HashMap::new();
  for l in read_lines(path) {
    let v: Value = serde_json::from_str(&l).expect("bad state line");
    let p: BTreeSet<u8> = json_bytes(&v["P"]).into_iter().collect();
    let succ = v["succ"]
      .as_array()
      .unwrap()
      .iter()
      .map(|e| (e[0].as_u64().unwrap() as u8, e[1].as_u64().unwrap() == 1))
      .collect();
    let nodes = v["nodes"]
      .as_array()
      .unwrap()
      .iter()
      .map(|e| (e[0].as_u64().unwrap() as usize, e[1].as_u64().unwrap() as u32))
      .collect();
    m.insert(
      key_of(&p),
      StateRec {
        succ,
        live: json_bytes(&v["live"]),
        dead: json_bytes(&v["dead"]),
        nodes,
      },
    );
  }
  m
}

struct Walk<'a> {
  states: &'a HashMap<String, StateRec>,
  fr: &'a Fresh,
  visited: HashSet<String>,
  tree: bool,
  c11: bool,
  max_states: u64,
  n_states: u64,
  canonical_equal: u64,
}

fn observe(
  g: &GGM,
  st: &StateRec,
  fr: &Fresh,
  hist: &[u8],
  rep: &mut Report,
  ctx: &str,
) {
  // "light" observations (after a refused call, or on a non-tree edge): the puncture
  // domain, every dead input and a rotating stripe of the remaining live inputs
  let light = ctx != "state";
  let dom: HashSet<u8> = st.succ.iter().map(|e| e.0).collect();
  let phase = (hist.len() % 8) as u8;
  for x in &st.live {
    if light && !dom.contains(x) && x % 8 != phase {
      continue;
    }
    rep.evaluations += 1;
    match eval1(g, *x) {
      Some(v) if v == fr.vals[*x as usize] => {}
      Some(_) => rep.violation(
        "C10",
        "GGM::eval",
        &format!("{ctx}:value-changed"),
        format!("unpunctured input {x} no longer evaluates to its original value"),
        json!({"history": hist, "x": x}),
      ),
      None => rep.violation(
        "C10",
        "GGM::eval",
        &format!("{ctx}:live-input-refused"),
        format!("unpunctured input {x} is refused"),
        json!({"history": hist, "x": x}),
      ),
    }
  }
  for x in &st.dead {
    rep.evaluations += 1;
    if eval1(g, *x).is_some() {
      rep.violation(
        "C10",
        "GGM::eval",
        &format!("{ctx}:punctured-input-evaluates"),
        format!("punctured input {x} still evaluates"),
        json!({"history": hist, "x": x}),
      );
    }
  }
}

fn badlen(g: &GGM, st: &StateRec, fr: &Fresh, hist: &[u8], rep: &mut Report) {
  let mut gg = g.clone();
  for len in [0usize, 2, 33] {
    let inp = vec![1u8; len];
    let mut out = vec![0u8; 32];
    rep.evaluations += 2;
    let r = guard(|| gg.eval(&inp, &mut out));
    if !matches!(r, Guard::Done(Err(_))) {
      rep.violation(
        "C10",
        "GGM::eval",
        "wrong-length-accepted",
        format!("eval accepted or crashed on an input of {len} bytes"),
        json!({"history": hist, "len": len}),
      );
    }
    let r = guard(|| gg.puncture(&inp));
    if !matches!(r, Guard::Done(Err(_))) {
      rep.violation(
        "C10",
        "GGM::puncture",
        "wrong-length-accepted",
        format!("puncture accepted or crashed on an input of {len} bytes"),
        json!({"history": hist, "len": len}),
      );
    }
  }
  observe(&gg, st, fr, hist, rep, "after-wrong-length");
}

impl<'a> Walk<'a> {
  fn dfs(&mut self, g: &GGM, p: &BTreeSet<u8>, hist: &mut Vec<u8>, rep: &mut Report) {
    if self.n_states >= self.max_states || rep.too_many() {
      return;
    }
    let key = key_of(p);
    let st = match self.states.get(&key) {
      Some(s) => s,
      None => return, // outside the table (constraint boundary)
    };
    self.n_states += 1;
    rep.nontrivial(format!("state:{key}"));
    observe(g, st, self.fr, hist, rep, "state");
    if self.n_states % 16 == 1 {
      badlen(g, st, self.fr, hist, rep);
    }
    if self.c11 {
      let ids = check_retained(g, self.fr, p, hist, rep, "walk");
      let idset: BTreeSet<(usize, u32)> = ids.into_iter().collect();
      if idset == st.nodes {
        self.canonical_equal += 1;
      }
    }
    if rep.samples.len() < 3 && hist.len() >= 2 {
      rep.sample(json!({"history": hist.clone(), "punctured": p.iter().collect::<Vec<_>>(),
        "live_checked": st.live.len(), "dead_checked": st.dead.len(),
        "spec_nodes": st.nodes.iter().map(|n| json!([n.0, n.1])).collect::<Vec<_>>() }));
    }
    for (x, ok) in st.succ.clone() {
      let mut g2 = g.clone();
      let r = guard(|| g2.puncture(&[x]));
      rep.evaluations += 1;
      rep.nontrivial(format!("tr:{key}>{x}"));
      let got = matches!(r, Guard::Done(Ok(())));
      hist.push(x);
      if got != ok {
        rep.violation(
          "C10",
          "GGM::puncture",
          if ok { "puncture-refused" } else { "repuncture-accepted" },
          format!(
            "puncture({x}) after {:?}: spec says ok={ok}, implementation ok={got}{}",
            &hist[..hist.len() - 1],
            if r.is_panic() { " (panic)" } else { "" }
          ),
          json!({"history": hist.clone(), "expected_ok": ok}),
        );
      } else if !ok {
        // refused: the key must be unchanged
        observe(&g2, st, self.fr, hist, rep, "after-refused-puncture");
      } else {
        let mut p2 = p.clone();
        p2.insert(x);
        let k2 = key_of(&p2);
        if self.tree || !self.visited.contains(&k2) {
          self.visited.insert(k2);
          self.dfs(&g2, &p2, hist, rep);
        } else if let Some(st2) = self.states.get(&k2) {
          // non-tree edge: a different history into a known set-state
          observe(&g2, st2, self.fr, hist, rep, "state-via-other-history");
          if self.c11 {
            check_retained(&g2, self.fr, &p2, hist, rep, "walk");
          }
        }
      }
      hist.pop();
    }
  }
}

/// `vh ggm-replay --states F [--mode lattice|tree] [--keys N] [--c11] [--max-states N]`
pub fn replay(a: &Args) -> Report {
  let mut rep = Report::new("ggm-replay");
  let states = load_states(a.get("states").expect("--states"));
  let keys = a.u64("keys", 1);
  let mut canon = 0;
  let mut total = 0;
  for _ in 0..keys {
    let g = GGM::setup();
    let fr = fresh_truth(&g, &mut rep);
    let mut w = Walk {
      states: &states,
      fr: &fr,
      visited: HashSet::new(),
      tree: a.str("mode", "lattice") == "tree",
      c11: a.flag("c11"),
      max_states: a.u64("max-states", u64::MAX),
      n_states: 0,
      canonical_equal: 0,
    };
    w.visited.insert(String::new());
    w.dfs(&g, &BTreeSet::new(), &mut Vec::new(), &mut rep);
    rep.traces += 1;
    canon += w.canonical_equal;
    total += w.n_states;
  }
  rep.count("states_visited", total);
  rep.count("states_with_canonical_cover", canon);
  rep.count("spec_states", states.len() as u64);
  rep
}

// ---------------------------------------------------------------------------
// Binding B: record long histories on the full 8-bit domain.

fn orders(rng: &mut impl Rng, which: u64) -> (String, Vec<u8>) {
  let all: Vec<u8> = (0..=255u8).collect();
  match which % 8 {
    0 => ("ascending".into(), all),
    1 => ("descending".into(), all.into_iter().rev().collect()),
    2 => {
      // sibling first: x then its sibling leaf (differs in the last tree level = bit 7)
      let mut v = Vec::new();
      for x in 0..128u8 {
        v.push(x);
        v.push(x ^ 0x80);
      }
      ("sibling-first".into(), v)
    }
    3 => {
      // bit reversed: walks the tree in path order
      ("bit-reversed".into(), all.iter().map(|x| x.reverse_bits()).collect())
    }
    4 => {
      // subtree last: leave one random depth-3 subtree (low 3 bits fixed) to the end
      let c = rng.gen_range(0..8u8);
      let mut first: Vec<u8> = all.iter().cloned().filter(|x| x & 7 != c).collect();
      first.shuffle(rng);
      let mut last: Vec<u8> = all.iter().cloned().filter(|x| x & 7 == c).collect();
      last.shuffle(rng);
      first.extend(last);
      ("subtree-last".into(), first)
    }
    5 => {
      // cousins first: one leaf from each depth-4 subtree, round robin
      let mut v = Vec::new();
      for hi in 0..16u8 {
        for lo in 0..16u8 {
          v.push(lo | (hi << 4));
        }
      }
      ("cousins-round-robin".into(), v)
    }
    _ => {
      let mut v = all;
      v.shuffle(rng);
      ("random".into(), v)
    }
  }
}

/// `vh ggm-record --out F --seed S --runs N [--steps K]`
pub fn record(a: &Args) -> Report {
  let mut rep = Report::new("ggm-record");
  let seed = a.u64("seed", 1);
  let runs = a.u64("runs", 4);
  let steps = a.u64("steps", 256) as usize;
  let out = a.get("out").expect("--out");
  let mut f = std::io::BufWriter::new(std::fs::File::create(out).expect("create"));
  for run in 0..runs {
    let mut rng = rng_from(seed, run);
    let (name, mut order) = orders(&mut rng, run + a.u64("order-offset", 0));
    order.truncate(steps);
    let mut g = GGM::setup();
    let fr = fresh_truth(&g, &mut rep);
    writeln!(f, "{}", json!({"ev": "Reset", "order": name})).unwrap();
    let mut hist: Vec<u8> = Vec::new();
    let mut p: BTreeSet<u8> = BTreeSet::new();
    for (i, x) in order.iter().enumerate() {
      // occasionally try a repeated puncture or a wrong-length call first
      if i > 0 && rng.gen_range(0..8) == 0 {
        let y = hist[rng.gen_range(0..hist.len())];
        let r = guard(|| g.puncture(&[y]));
        rep.evaluations += 1;
        let ok = matches!(r, Guard::Done(Ok(())));
        log_puncture(&mut f, &g, y, ok);
      }
      if rng.gen_range(0..16) == 0 {
        let len = [0usize, 2, 3, 33][rng.gen_range(0..4)];
        let inp = vec![*x; len];
        let r = guard(|| g.puncture(&inp));
        rep.evaluations += 1;
        writeln!(
          f,
          "{}",
          json!({"ev":"BadLen","op":"puncture","len":len,"ok": if matches!(r, Guard::Done(Ok(()))) {1} else {0},
                 "nodes": nodes_json(&g), "pl": punct_json(&g)})
        )
        .unwrap();
      }
      let r = guard(|| g.puncture(&[*x]));
      rep.evaluations += 1;
      let ok = matches!(r, Guard::Done(Ok(())));
      if ok {
        p.insert(*x);
      }
      hist.push(*x);
      log_puncture(&mut f, &g, *x, ok);
      check_retained(&g, &fr, &p, &hist, &mut rep, "record");
      // evaluations: the punctured input, its sibling leaf, neighbours, random others
      let mut probes = vec![*x, *x ^ 0x80, *x ^ 1, x.wrapping_add(1), 0, 255];
      for _ in 0..4 {
        probes.push(rng.gen());
      }
      for y in probes {
        let v = eval1(&g, y);
        rep.evaluations += 1;
        let (ok, vid) = match &v {
          Some(b) => (1, fr.val_id.get(b).map(|i| *i as i64).unwrap_or(-1)),
          None => (0, -1),
        };
        writeln!(f, "{}", json!({"ev":"Eval","x":y,"ok":ok,"vid":vid})).unwrap();
      }
      rep.nontrivial(format!("{run}:{i}"));
    }
    // final sweep over the whole domain
    for y in 0..=255u8 {
      let v = eval1(&g, y);
      rep.evaluations += 1;
      let (ok, vid) = match &v {
        Some(b) => (1, fr.val_id.get(b).map(|i| *i as i64).unwrap_or(-1)),
        None => (0, -1),
      };
      writeln!(f, "{}", json!({"ev":"Eval","x":y,"ok":ok,"vid":vid})).unwrap();
    }
    rep.traces += 1;
    rep.sample(json!({"order": name, "first_steps": &hist[..hist.len().min(12)], "steps": hist.len()}));
  }
  f.flush().unwrap();
  rep
}

fn nodes_json(g: &GGM) -> Value {
  Value::Array(
    g.verif_retained_nodes()
      .iter()
      .map(|(bits, _, _)| {
        let (k, v) = bits_to_node(bits);
        json!([k, v])
      })
      .collect(),
  )
}

/// the inputs the key itself logs as punctured
fn logged_set(g: &GGM) -> BTreeSet<u8> {
  g.verif_punctured().iter().map(|bits| bits_to_node(bits).1 as u8).collect()
}

fn punct_json(g: &GGM) -> Value {
  Value::Array(
    g.verif_punctured()
      .iter()
      .map(|bits| json!(bits_to_node(bits).1))
      .collect(),
  )
}

fn log_puncture(f: &mut impl Write, g: &GGM, x: u8, ok: bool) {
  writeln!(
    f,
    "{}",
    json!({"ev":"Puncture","x":x,"ok": if ok {1} else {0}, "nodes": nodes_json(g), "pl": punct_json(g)})
  )
  .unwrap();
}

// ---------------------------------------------------------------------------
// All ordered pairs over the full domain (two-step behaviours), judged by the
// property's own predicate plus the fresh-key values.

/// `vh ggm-pairs [--stride N]`
pub fn pairs(a: &Args) -> Report {
  let mut rep = Report::new("ggm-pairs");
  let stride = a.u64("stride", 1) as usize;
  let seed = a.u64("seed", 1) as usize;
  let g0 = GGM::setup();
  let fr = fresh_truth(&g0, &mut rep);
  for x in 0..256usize {
    let mut g1 = g0.clone();
    if !matches!(guard(|| g1.puncture(&[x as u8])), Guard::Done(Ok(()))) {
      rep.violation("C10", "GGM::puncture", "puncture-refused",
        format!("first puncture of {x} refused"), json!({"history":[x]}));
      continue;
    }
    // the caller's output buffer is an argument too: for every buffer length the OUTCOME of
    // evaluating an unpunctured input (bytes, an error, or a refusal by panic) is what it was on the
    // fresh key — in particular for the sibling leaf, which is now retained as a full-length node
    for n in [0usize, 1, 16, 31, 33, 64] {
      for z in [(x as u8) ^ 0x80, (x as u8) ^ 1, (x as u8) ^ 0x40, (x as u8).wrapping_add(1)] {
        let outcome = |g: &GGM| -> String {
          let mut out = vec![0u8; n];
          match guard(|| g.eval(&[z], &mut out)) {
            Guard::Done(Ok(())) => format!("value:{out:?}"),
            Guard::Done(Err(_)) => "error".into(),
            Guard::Panic(_) => "refused-by-panic".into(),
          }
        };
        rep.evaluations += 2;
        let (before, after) = (outcome(&g0), outcome(&g1));
        if before != after {
          rep.violation("C10", "GGM::eval", "pairs:value-changed-for-buffer-length",
            format!("input {z} evaluated into a {n}-byte buffer: {} before puncturing {x}, {} after",
              &before[..before.len().min(40)], &after[..after.len().min(40)]),
            json!({"history": [x], "x": z, "buffer_len": n}));
        }
      }
    }
    for y in ((x + seed) % stride..256).step_by(stride) {
      let mut g2 = g1.clone();
      let r = guard(|| g2.puncture(&[y as u8]));
      rep.evaluations += 1;
      let ok = matches!(r, Guard::Done(Ok(())));
      let hist = [x as u8, y as u8];
      if ok != (x != y) {
        rep.violation("C10", "GGM::puncture",
          if x == y { "repuncture-accepted" } else { "puncture-refused" },
          format!("puncture({y}) after puncture({x}) returned ok={ok}"),
          json!({"history": hist}));
        continue;
      }
      rep.nontrivial(format!("{x},{y}"));
      let mut p = BTreeSet::new();
      p.insert(x as u8);
      p.insert(y as u8);
      check_retained(&g2, &fr, &p, &hist, &mut rep, "pairs");
      // the two punctured inputs, their relatives and a stripe of others
      let mut probes: Vec<u8> = vec![x as u8, y as u8];
      for b in 0..8 {
        probes.push((x as u8) ^ (1 << b));
        probes.push((y as u8) ^ (1 << b));
      }
      for z in probes {
        rep.evaluations += 1;
        let v = eval1(&g2, z);
        let dead = p.contains(&z);
        match (dead, v) {
          (true, Some(_)) => rep.violation("C10", "GGM::eval", "pairs:punctured-input-evaluates",
            format!("{z} evaluates after punctures {hist:?}"), json!({"history": hist, "x": z})),
          (false, None) => rep.violation("C10", "GGM::eval", "pairs:live-input-refused",
            format!("{z} refused after punctures {hist:?}"), json!({"history": hist, "x": z})),
          (false, Some(b)) if b != fr.vals[z as usize] => rep.violation("C10", "GGM::eval",
            "pairs:value-changed", format!("{z} changed value after punctures {hist:?}"),
            json!({"history": hist, "x": z})),
          _ => {}
        }
      }
    }
  }
  rep.traces = 1;
  rep.sample(json!({"pairs": "all (x,y) with stride", "stride": stride}));
  rep
}

// ---------------------------------------------------------------------------
// C11 at export points: export the server key state after every step of a history,
// scan the exported bytes, import into a fresh server and re-examine it.

pub fn export_bytes(s: &Server) -> Vec<u8> {
  bincode::serialize(&s.get_private_key()).expect("bincode of key state")
}

pub fn import_server(bytes: &[u8]) -> Option<Server> {
  let st: ServerKeyState = bincode::deserialize(bytes).ok()?;
  let mut s = Server::new(vec![]).ok()?;
  s.set_private_key(st);
  Some(s)
}

/// `vh ggm-sparse --stride K --seed S` (C10): histories in which ONE input is evaluated only now and
/// then between punctures — nothing else is evaluated in between, so whatever an implementation
/// remembers from the last evaluation (a lookup hint, a cached node index) meets a key that has
/// changed under it.  Every ordered history of 3 and 4 punctures over a pool of sibling / cousin
/// leaves x every hot input x every pattern of "evaluate before this puncture or not".
pub fn sparse(a: &Args) -> Report {
  let mut rep = Report::new("ggm-sparse");
  let stride = a.u64("stride", 1).max(1) as usize;
  let seed = a.u64("seed", 1) as usize;
  let g0 = GGM::setup();
  let fr = fresh_truth(&g0, &mut rep);
  let pool: [u8; 10] = [0, 128, 1, 129, 2, 130, 64, 192, 3, 131];
  let hots: [u8; 6] = [2, 130, 6, 255, 192, 127];
  let mut histories: Vec<Vec<u8>> = Vec::new();
  for a1 in pool {
    for a2 in pool {
      if a2 == a1 { continue; }
      for a3 in pool {
        if a3 == a1 || a3 == a2 { continue; }
        histories.push(vec![a1, a2, a3]);
        for a4 in pool {
          if a4 == a1 || a4 == a2 || a4 == a3 { continue; }
          histories.push(vec![a1, a2, a3, a4]);
        }
      }
    }
  }
  for (hi, h) in histories.iter().enumerate() {
    if hi % stride != seed % stride || rep.too_many() {
      continue;
    }
    for x in hots {
      if h.contains(&x) {
        continue;
      }
      let truth = &fr.vals[x as usize];
      for mask in 0..(1u32 << h.len()) {
        let mut g = g0.clone();
        let mut ok = true;
        for (i, p) in h.iter().enumerate() {
          if (mask >> i) & 1 == 1 {
            rep.evaluations += 1;
            ok &= eval1(&g, x).as_ref() == Some(truth);
          }
          if !matches!(guard(|| g.puncture(&[*p])), Guard::Done(Ok(()))) {
            rep.violation("C10", "GGM::puncture", "sparse:puncture-refused",
              format!("puncture({p}) refused in history {h:?}"), json!({"history": h, "x": x, "eval_mask": mask}));
            ok = true;
            break;
          }
        }
        rep.evaluations += 1;
        ok &= eval1(&g, x).as_ref() == Some(truth);
        if !ok {
          rep.violation("C10", "GGM::eval", "sparse:value-changed",
            format!("input {x}, evaluated only before the punctures marked in the mask and at the end of history {h:?}, did not keep its value"),
            json!({"history": h, "x": x, "eval_mask": mask}));
        }
      }
      rep.nontrivial(format!("sparse:{hi}:{x}"));
    }
  }
  rep.sample(json!({"pool": pool, "hot_inputs": hots, "histories": histories.len(), "stride": stride}));
  rep.traces = 1;
  rep
}

/// `vh ggm-export --seed S --runs N --steps K`
pub fn export(a: &Args) -> Report {
  let mut rep = Report::new("ggm-export");
  let seed = a.u64("seed", 1);
  let runs = a.u64("runs", 4);
  let steps = a.u64("steps", 40) as usize;
  for run in 0..runs {
    let mut rng = rng_from(seed, 1000 + run);
    let (name, mut order) = orders(&mut rng, run);
    if steps < 256 {
      // keep adversarial structure but a random window of it
      let start = rng.gen_range(0..(256 - steps));
      order = order[start..start + steps].to_vec();
    }
    let mds: Vec<u8> = vec![0, 1, 128, 255, order[0], order[order.len() - 1]];
    let mut s = match Server::new(mds) {
      Ok(s) => s,
      Err(_) => continue,
    };
    let fr = fresh_truth(s.verif_pprf(), &mut rep);
    let mut p: BTreeSet<u8> = BTreeSet::new();
    let mut hist: Vec<u8> = Vec::new();
    // a long-lived follower that is re-synchronised from the leader's exported state after
    // every puncture (set_private_key on an instance that already holds an older state)
    let mut follower: Option<Server> = import_server(&export_bytes(&s));
    // a server may have retired inputs on its own (e.g. everything that is not a registered tag, at
    // creation): what the key logs as punctured counts as punctured — C11 then demands that nothing
    // on those paths is retained either; what WE punctured must be in that log
    p.extend(logged_set(s.verif_pprf()));
    for x in order {
      if matches!(guard(|| s.puncture(x)), Guard::Done(Ok(()))) {
        p.insert(x);
        if !logged_set(s.verif_pprf()).contains(&x) {
          rep.violation("C11", "Server::puncture", "export:puncture-not-logged",
            format!("puncture({x}) succeeded but the key does not list {x} as punctured"), json!({"history": hist, "x": x}));
        }
      }
      hist.push(x);
      rep.evaluations += 1;
      let bytes = export_bytes(&s);
      let forb = forbidden(&fr, &p);
      for fs in &forb {
        if let Some(off) = contains(&bytes, fs) {
          rep.violation("C11", "Server::get_private_key", "export:seed-on-punctured-path",
            format!("exported key state contains a seed on the path to a punctured input at offset {off}"),
            json!({"history": hist, "offset": off}));
          break;
        }
      }
      check_retained(s.verif_pprf(), &fr, &p, &hist, &mut rep, "exporter");
      if let Some(f) = follower.as_mut() {
        if let Ok(st) = bincode::deserialize::<ServerKeyState>(&bytes) {
          let _ = guard(|| f.set_private_key(st));
          check_retained(f.verif_pprf(), &fr, &p, &hist, &mut rep, "resynced-follower");
          let fb = export_bytes(f);
          for fs in &forb {
            if contains(&fb, fs).is_some() {
              rep.violation("C11", "Server::set_private_key", "resync:seed-on-punctured-path",
                "the re-exported state of a follower re-synchronised after this puncture contains a forbidden seed".into(),
                json!({"history": hist}));
              break;
            }
          }
        }
      }
      match guard(|| import_server(&bytes)) {
        Guard::Done(Some(s2)) => {
          check_retained(s2.verif_pprf(), &fr, &p, &hist, &mut rep, "importer");
          let b2 = export_bytes(&s2);
          for fs in &forb {
            if contains(&b2, fs).is_some() {
              rep.violation("C11", "Server::set_private_key", "import:seed-on-punctured-path",
                "re-exported state of the importing server contains a forbidden seed".into(),
                json!({"history": hist}));
              break;
            }
          }
          // the importer evaluates exactly the unpunctured inputs, to the original values
          for z in [x, x ^ 0x80, x ^ 1, 0, 255, rng.gen(), rng.gen()] {
            rep.evaluations += 1;
            let v = eval1(s2.verif_pprf(), z);
            let dead = p.contains(&z);
            let good = match (&v, dead) {
              (None, true) => true,
              (Some(b), false) => *b == fr.vals[z as usize],
              _ => false,
            };
            if !good {
              rep.violation("C11", "Server::set_private_key", "import:evaluates-differently",
                format!("imported key state: input {z} punctured={dead} evaluates={}", v.is_some()),
                json!({"history": hist, "x": z}));
            }
          }
        }
        _ => rep.violation("C11", "Server::set_private_key", "import-failed",
          "exported key state could not be imported".into(), json!({"history": hist})),
      }
      rep.nontrivial(format!("{run}:{}", hist.len()));
    }
    rep.traces += 1;
    rep.sample(json!({"order": name, "export_points": hist.len(), "first_steps": &hist[..hist.len().min(10)]}));
  }
  rep
}
