//! End-to-end family (Protocol.tla): epochs, a real randomness server that punctures its tag
//! at the end of each epoch, clients reporting through real PPOPRF exchanges, and an adversary
//! who sees every report, holds a dictionary and steals the server's exported key state.
//! The specification predicts exactly which (measurement, epoch) pairs the dictionary attack
//! identifies, which epochs the stolen state still answers, and what aggregation reveals.
use crate::ggm::{export_bytes, import_server};
use crate::star::oprf_randomness;
use crate::util::*;
use ppoprf::ppoprf::Server;
use serde_json::{json, Value};
use sta_rs::{derive_ske_key, load_bytes, share_recover, AssociatedData, Message, MessageGenerator, SingleMeasurement};
use std::collections::{BTreeMap, BTreeSet};

fn meas_bytes(g: u64) -> Vec<u8> {
  format!("measurement #{g} (low entropy)").into_bytes()
}

/// `vh protocol-replay --lines F [--stride N]`
pub fn replay(a: &Args) -> Report {
  let mut rep = Report::new("protocol-replay");
  let stride = a.u64("stride", 1) as usize;
  for (li, l) in read_lines(a.get("lines").expect("--lines")).iter().enumerate() {
    if li % stride != 0 || rep.too_many() {
      continue;
    }
    let v: Value = serde_json::from_str(l).expect("line");
    let tags: Vec<u8> = json_bytes(&v["tags"]);
    let meas: Vec<u64> = v["meas"].as_array().unwrap().iter().map(|x| x.as_u64().unwrap()).collect();
    let dict: Vec<u64> = v["dict"].as_array().unwrap().iter().map(|x| x.as_u64().unwrap()).collect();
    let t = v["t"].as_u64().unwrap() as u32;
    let mut server = match Server::new(tags.clone()) {
      Ok(s) => s,
      Err(_) => continue,
    };
    let mut stolen: Option<Server> = None;
    let mut wire: Vec<(u8, u64, Message)> = Vec::new(); // (epoch, true measurement id, report)
    let ctx = json!({"history": v["hist"]});
    let mut ok_run = true;
    for step in v["hist"].as_array().unwrap() {
      let kind = step[0].as_str().unwrap();
      rep.evaluations += 1;
      match kind {
        "report" => {
          let c = step[1].as_u64().unwrap() as usize;
          let e = step[2].as_u64().unwrap() as u8;
          let m = meas_bytes(meas[c - 1]);
          let rnd = match guard(|| oprf_randomness(&server, &m, e, true)) {
            Guard::Done(Some(r)) => r,
            _ => {
              rep.violation("C14", "Server::eval", "protocol:current-epoch-refused",
                format!("the randomness server refused the current epoch tag {e}"), ctx.clone());
              ok_run = false;
              break;
            }
          };
          let mg = MessageGenerator::new(SingleMeasurement::new(&m), t, &[e]);
          match guard(|| Message::generate(&mg, &rnd, Some(AssociatedData::new(&[c as u8])))) {
            Guard::Done(Ok(msg)) => wire.push((e, meas[c - 1], msg)),
            _ => ok_run = false,
          }
        }
        "rotate" => {
          let e = step[1].as_u64().unwrap() as u8;
          if !matches!(guard(|| server.puncture(e)), Guard::Done(Ok(()))) {
            rep.violation("C14", "Server::puncture", "protocol:rotation-failed",
              format!("puncturing the ending epoch {e} failed"), ctx.clone());
            ok_run = false;
            break;
          }
        }
        _ => {
          // the adversary obtains the exported key state
          let bytes = export_bytes(&server);
          stolen = import_server(&bytes);
        }
      }
    }
    if !ok_run {
      continue;
    }
    let stolen = match stolen {
      Some(s) => s,
      None => continue,
    };
    // (1) which epochs does the stolen state still answer?
    let mut answers: BTreeSet<u8> = BTreeSet::new();
    for e in &tags {
      if guard(|| oprf_randomness(&stolen, b"probe", *e, false)).ok().flatten().is_some() {
        answers.insert(*e);
      }
    }
    let want_answers: BTreeSet<u8> = json_bytes(&v["answers"]).into_iter().collect();
    if answers != want_answers {
      let extra: Vec<&u8> = answers.difference(&want_answers).collect();
      rep.violation("C11", "Server::get_private_key", "protocol:stolen-state-answers-punctured-epoch",
        format!("the stolen key state answers epochs {:?}, the specification says {:?} (unexpected: {:?})", answers, want_answers, extra),
        ctx.clone());
    }
    // (2) dictionary attack with the stolen state
    let mut guessed: BTreeSet<(u64, u8)> = BTreeSet::new();
    for g in &dict {
      for e in &tags {
        let m = meas_bytes(*g);
        rep.evaluations += 1;
        if let Some(rnd) = guard(|| oprf_randomness(&stolen, &m, *e, false)).ok().flatten() {
          let mg = MessageGenerator::new(SingleMeasurement::new(&m), t, &[*e]);
          if let Guard::Done(Ok(probe)) = guard(|| Message::generate(&mg, &rnd, None)) {
            if wire.iter().any(|(we, _, r)| we == e && r.tag == probe.tag) {
              guessed.insert((*g, *e));
            }
          }
        }
      }
    }
    let want_guessed: BTreeSet<(u64, u8)> =
      v["guessed"].as_array().unwrap().iter().map(|p| (p[0].as_u64().unwrap(), p[1].as_u64().unwrap() as u8)).collect();
    if guessed != want_guessed {
      let extra: Vec<&(u64, u8)> = guessed.difference(&want_guessed).collect();
      let class = if extra.is_empty() { "protocol:attack-weaker-than-model" } else { "protocol:punctured-epoch-attacked" };
      rep.violation("C11", "randomness server key state", class,
        format!("dictionary attack identified {:?}, the specification predicts {:?}", guessed, want_guessed), ctx.clone());
    }
    // (3) what aggregation reveals, per epoch (the adversary can aggregate too)
    for (ei, e) in tags.iter().enumerate() {
      let mut buckets: BTreeMap<Vec<u8>, Vec<&Message>> = BTreeMap::new();
      for (we, _, r) in &wire {
        if we == e {
          buckets.entry(r.tag.clone()).or_default().push(r);
        }
      }
      let mut revealed: BTreeSet<u64> = BTreeSet::new();
      for (_, msgs) in buckets {
        let shares: Vec<sta_rs::Share> = msgs.iter().map(|m| m.share.clone()).collect();
        rep.evaluations += 1;
        if let Guard::Done(Ok(r0)) = guard(|| share_recover(&shares).map(|c| c.get_message()).map_err(|e| e.to_string())) {
          let mut key = vec![0u8; 16];
          derive_ske_key(&r0, &[*e], &mut key);
          let pt = msgs[0].ciphertext.decrypt(&key, "star_encrypt");
          if let Some(m) = load_bytes(&pt) {
            for g in &meas {
              if m == meas_bytes(*g).as_slice() {
                revealed.insert(*g);
              }
            }
          }
        }
      }
      let want: BTreeSet<u64> = v["agg"][ei].as_array().unwrap().iter().map(|x| x.as_u64().unwrap()).collect();
      if revealed != want {
        rep.violation("C01", "share_recover", "protocol:aggregation-differs",
          format!("epoch {e}: aggregation reveals {:?}, the specification predicts {:?}", revealed, want), ctx.clone());
      }
    }
    rep.nontrivial(format!("{}", v["hist"]));
    if rep.samples.len() < 4 && !want_guessed.is_empty() && want_answers.len() < tags.len() {
      rep.sample(json!({"history": v["hist"], "stolen_state_answers": want_answers, "dictionary_hits": v["guessed"], "aggregation": v["agg"]}));
    }
  }
  rep.traces = 1;
  rep
}
